"""A memo table on the check path whose key is a *lossy rendering* of an object.

`cache[(str(signature), name)]`, `memo[(id(dtypes), dtype)]`, `seen[fn.__qualname__]`: two different
objects can have the same rendering (str() of a signature does not identify the annotation objects in
it; an id() is reused once the object is freed; qualified names of factory-made functions coincide), so
what was computed for one object is handed out for another.  Statically visible in the construct itself:
a module-/class-level container that check-time code both writes and reads under such a key.  A memo keyed
by the objects themselves is not reported (it is behaviour-preserving for a deterministic computation).

Used as a clause by the properties whose verdict / message / equality is what the memo would hold
(C13: which parameter is blamed; C20: what a reloaded annotation accepts).
"""
from __future__ import annotations

import ast

from ..callgraph import CallGraph
from ..core import RuleContext, norm, short
from ..effects import Effects
from ..model import walk_scope

LOSSY_CALLS = {"str", "repr", "id", "hash", "format", "ascii"}
LOSSY_ATTRS = {"__name__", "__qualname__", "__module__"}


def _lossy_atoms(e, scope_fn, depth=0):
    """[(kind, node, subject expression text)] of lossy renderings inside a key expression."""
    out = []
    if e is None:
        return out
    for x in ast.walk(e):
        if isinstance(x, ast.Call) and isinstance(x.func, ast.Name) and x.func.id in LOSSY_CALLS and x.args and not isinstance(x.args[0], ast.Constant):
            out.append((x.func.id, x, norm(x.args[0])))
        elif isinstance(x, ast.JoinedStr) and any(isinstance(v, ast.FormattedValue) for v in x.values):
            out.append(("f-string", x, norm(x)))
        elif isinstance(x, ast.Attribute) and x.attr in LOSSY_ATTRS:
            out.append((x.attr, x, norm(x.value)))
        elif isinstance(x, ast.Name) and isinstance(x.ctx, ast.Load) and depth < 2:
            defs = [a for a in walk_scope(scope_fn.node) if isinstance(a, ast.Assign) and len(a.targets) == 1 and isinstance(a.targets[0], ast.Name) and a.targets[0].id == x.id]
            if len(defs) == 1 and x.id not in scope_fn.params:
                out += _lossy_atoms(defs[0].value, scope_fn, depth + 1)
    return out


def check_no_lossy_memo(ctx: RuleContext, tag: str, r, cg=None, what="the result"):
    from .c06 import entry_points

    m = ctx.model
    cg = cg or CallGraph(m)
    eff = Effects(m, r)
    pred = cg.reachable(entry_points(ctx, r))
    # shared containers: module-level / class-level names bound to a mutable literal
    n_tables = 0
    for q in sorted(pred):
        f = m.functions.get(q)
        if f is None or f.module.short.startswith("_typeguard"):
            continue
        for s in eff.stores(f):
            if s.kind not in ("modvar", "global", "class"):
                continue
            node = s.node
            key = None
            val = None
            # M[key] = v   /   M.setdefault(key, v)
            for st in walk_scope(f.node):
                if isinstance(st, ast.Assign) and any(t is node or any(y is node for y in ast.walk(t)) for t in st.targets):
                    for t in st.targets:
                        if isinstance(t, ast.Subscript):
                            key, val = t.slice, st.value
                if isinstance(st, ast.Call) and (st is node or any(y is node for y in ast.walk(st))) and isinstance(st.func, ast.Attribute) and st.func.attr == "setdefault" and st.args:
                    key, val = st.args[0], st.args[1] if len(st.args) > 1 else None
            if key is None:
                continue
            n_tables += 1
            atoms = _lossy_atoms(key, f)
            # id(x) is sound while the entry keeps x alive
            kept = []
            def stores_object(v, subj):
                """the entry itself holds the object (directly or as an element of a tuple / list), which keeps it alive"""
                if v is None:
                    return False
                if norm(v) == subj:
                    return True
                return isinstance(v, (ast.Tuple, ast.List)) and any(stores_object(e_, subj) for e_ in v.elts)

            for kind, nd, subj in atoms:
                if kind == "id" and stores_object(val, subj):
                    continue
                kept.append((kind, nd, subj))
            if not kept:
                ctx.ok(tag, q, f"memo `{s.root_name}` is keyed by the objects themselves (`{short(key, 50)}`)")
                continue
            # it must also be read on the check path (a write-only registry is not a memo)
            reads = False
            for q2 in pred:
                f2 = m.functions.get(q2)
                if f2 is None:
                    continue
                for x in walk_scope(f2.node):
                    if isinstance(x, ast.Subscript) and isinstance(x.ctx, ast.Load) and isinstance(x.value, ast.Name) and x.value.id == s.root_name.split(".")[-1]:
                        reads = True
                    if isinstance(x, ast.Call) and isinstance(x.func, ast.Attribute) and x.func.attr in ("get", "setdefault") and isinstance(x.func.value, ast.Name) \
                            and x.func.value.id == s.root_name.split(".")[-1]:
                        reads = True
            if not reads:
                continue
            kind, nd, subj = kept[0]
            why = {"id": "an id() is reused once the object is freed", "str": "str() of an object does not identify it", "repr": "repr() of an object does not identify it",
                   "f-string": "a formatted rendering does not identify the objects in it", "hash": "hashes collide"}.get(kind, f"`{kind}` is shared by different objects")
            ctx.bad(tag, f, node, f"check-time memo `{s.root_name}` is keyed by `{short(key, 60)}`, i.e. by {kind}(`{subj}`): {why}, so {what} computed for one object "
                    "is handed out for another", construct=f"memo {s.root_name} keyed by {kind} of {subj}")
    ctx.counters[f"{tag}:memo_tables_on_check_path"] = n_tables
    ctx.ok(tag, "<check path>", f"{len(pred)} functions reachable from the check entry points write {n_tables} keyed shared table(s); none is keyed by a lossy rendering "
           "(str / repr / id / name) of an object")


# --------------------------------------------------------------------------- is a keyed store a pure memo?
PURE_FUNCS = {"type", "isinstance", "issubclass", "len", "bool", "any", "all", "tuple", "frozenset", "str", "int", "float", "min", "max", "sum", "sorted", "hasattr",
              "getattr", "repr", "enumerate", "zip", "range", "abs"}
PURE_METHODS = {"startswith", "endswith", "lower", "upper", "strip", "split", "rsplit", "join", "match", "fullmatch", "search", "get", "keys", "values", "items",
                "count", "find", "index", "isidentifier", "partition", "rpartition", "replace", "casefold", "format"}


def keyed_store_parts(f, node):
    """(container name, key, value) when `node` (the AST node of a Store effect) is `M[key] = value` /
    `M.setdefault(key, value)` on a bare name M; else None."""
    for st in walk_scope(f.node):
        if isinstance(st, ast.Assign) and len(st.targets) == 1 and isinstance(st.targets[0], ast.Subscript) and isinstance(st.targets[0].value, ast.Name) \
                and (st.targets[0] is node or st is node or any(y is node for y in ast.walk(st.targets[0]))):
            return st.targets[0].value.id, st.targets[0].slice, st.value
        if isinstance(st, ast.Call) and isinstance(st.func, ast.Attribute) and st.func.attr == "setdefault" and isinstance(st.func.value, ast.Name) and len(st.args) == 2 \
                and (st is node or any(y is node for y in ast.walk(st))):
            return st.func.value.id, st.args[0], st.args[1]
    return None


def classify_keyed_store(m, r, f, key, val, container=None) -> tuple:
    """('lossy', why) | ('context', why) | ('pure', '') | ('unknown', why): is `M[key] = val` in f a memo whose value is
    a function of its key alone?  'pure' = key and value are built from f's parameters (their attributes / items),
    constants and side-effect-free builtins / string / regex methods only; 'context' = they read the binding context
    or thread-local state (a verdict that depends on bindings must not be shared); 'lossy' = the key is a rendering
    (str / repr / id / name) that different objects share."""
    atoms = _lossy_atoms(key, f) if key is not None else []
    if atoms:
        k_, _, subj = atoms[0]
        return "lossy", f"keyed by {k_}(`{subj}`)"
    seen = set()

    def deps(e, depth=0):
        """None if pure in the parameters, else a reason string"""
        for x in ast.walk(e):
            if isinstance(x, ast.Call):
                role = r.role_of_call(f, x)
                if role is not None:
                    return ("context", f"reads the binding context / thread-local state through `{role}`")
                fn = x.func
                if isinstance(fn, ast.Name):
                    if fn.id in PURE_FUNCS:
                        continue
                    return ("unknown", f"calls `{fn.id}`")
                if isinstance(fn, ast.Attribute):
                    if fn.attr in PURE_METHODS:
                        continue
                    return ("unknown", f"calls `.{fn.attr}()`")
                return ("unknown", "calls a computed callee")
            if isinstance(x, (ast.Lambda, ast.Yield, ast.Await, ast.NamedExpr)):
                return ("unknown", "contains a lambda / walrus")
            if isinstance(x, ast.Name) and isinstance(x.ctx, ast.Load):
                if x.id in f.params or x.id in PURE_FUNCS or x.id in ("True", "False", "None"):
                    continue
                if r.tl_of_expr(f, x) is not None:
                    return ("context", f"reads thread-local state `{x.id}`")
                b = m.resolve_name(f, x.id)
                if b.kind in ("class", "func", "module", "ext", "builtin"):
                    continue
                if b.kind == "modvar":
                    if container is not None and x.id == container:
                        continue  # the memo's own lookup
                    return ("unknown", f"reads the module-level `{x.id}`")
                if x.id in seen or depth > 3:
                    continue
                seen.add(x.id)
                # a local: every definition must be pure too (loop targets over pure iterables included)
                for st in walk_scope(f.node):
                    if isinstance(st, (ast.Assign, ast.AnnAssign)):
                        tg = st.targets if isinstance(st, ast.Assign) else [st.target]
                        if any(isinstance(y, ast.Name) and y.id == x.id for t in tg for y in ast.walk(t)) and st.value is not None:
                            sub = deps(st.value, depth + 1)
                            if sub is not None:
                                return sub
                    elif isinstance(st, (ast.For, ast.comprehension)) and any(isinstance(y, ast.Name) and y.id == x.id for y in ast.walk(st.target)):
                        sub = deps(st.iter, depth + 1)
                        if sub is not None:
                            return sub
                    elif isinstance(st, ast.AugAssign) and isinstance(st.target, ast.Name) and st.target.id == x.id:
                        sub = deps(st.value, depth + 1)
                        if sub is not None:
                            return sub
        return None

    # the value must be determined by the key: every parameter-rooted access path the value is computed from has a
    # prefix that is itself an element of the key (`M[(dtypes, name)] = f(dtypes, name)`: yes; `M[type(x)] = x.shape`: no)
    if key is not None and val is not None:
        elems = list(key.elts) if isinstance(key, ast.Tuple) else [key]
        if isinstance(key, ast.Name) and key.id not in f.params:
            kd = [a for a in walk_scope(f.node) if isinstance(a, ast.Assign) and len(a.targets) == 1 and isinstance(a.targets[0], ast.Name) and a.targets[0].id == key.id]
            if len(kd) == 1:
                elems = list(kd[0].value.elts) if isinstance(kd[0].value, ast.Tuple) else [kd[0].value]
        key_paths = set()
        key_locals = {e_.id for e_ in elems if isinstance(e_, ast.Name) and e_.id not in f.params}  # a local used as (part of) the key determines itself
        elems = [e_ for e_ in elems if not (isinstance(e_, ast.Name) and e_.id in key_locals)]
        for e_ in elems:
            root = e_
            while isinstance(root, (ast.Attribute, ast.Subscript)):
                root = root.value
            if isinstance(root, ast.Name) and root.id in f.params and isinstance(e_, (ast.Name, ast.Attribute, ast.Subscript)):
                key_paths.add(norm(e_))
            elif isinstance(e_, ast.Constant):
                continue
            else:
                key_paths.add(None)  # an element that is computed (a call, a local): what it determines is not interpreted

        def chains(e, depth=0, seen_=None):
            seen_ = seen_ if seen_ is not None else set()
            out = set()

            def rec(x):
                if isinstance(x, (ast.Attribute, ast.Subscript, ast.Name)):
                    root = x
                    while isinstance(root, (ast.Attribute, ast.Subscript)):
                        root = root.value
                    if isinstance(root, ast.Name):
                        if root.id in f.params:
                            out.add(norm(x))
                            if isinstance(x, ast.Subscript):
                                rec(x.slice)
                            return
                        if isinstance(x, ast.Name) and x.id in key_locals:
                            return
                        if isinstance(x, ast.Name) and x.id not in seen_ and depth < 4 and isinstance(x.ctx, ast.Load):
                            seen_.add(x.id)
                            for st in walk_scope(f.node):
                                if isinstance(st, (ast.Assign, ast.AugAssign, ast.AnnAssign)) and getattr(st, "value", None) is not None:
                                    tg = st.targets if isinstance(st, ast.Assign) else [st.target]
                                    if any(isinstance(y, ast.Name) and y.id == x.id for t in tg for y in ast.walk(t)):
                                        out.update(chains(st.value, depth + 1, seen_))
                                elif isinstance(st, (ast.For, ast.comprehension)) and any(isinstance(y, ast.Name) and y.id == x.id for y in ast.walk(st.target)):
                                    out.update(chains(st.iter, depth + 1, seen_))
                            return
                for c in ast.iter_child_nodes(x):
                    rec(c)

            rec(e)
            return out

        need_paths = chains(val)
        uncovered = [p_ for p_ in need_paths if not any(k_ is not None and (p_ == k_ or p_.startswith(k_ + ".") or p_.startswith(k_ + "[")) for k_ in key_paths)]
        if uncovered:
            return "unknown", f"the entry is computed from `{sorted(uncovered)[0]}`, which the key `{norm(key)[:40]}` does not determine"
        # keyed by an object itself (looked up with `==` / hash) while the entry is computed from that object's *attributes*: sound only if equal
        # objects have equal attributes, which is a property of the object's class (numpy dtypes: `dtype(longlong) == dtype(int64)`, names differ)
        bare = {k_ for k_ in key_paths if k_ is not None}
        deeper = sorted(p_ for p_ in need_paths if any(p_.startswith(b_ + ".") for b_ in bare))
        if deeper:
            return "unknown", f"keyed by the object `{sorted(bare)[0]}` (compared with ==) while the entry is computed from its attributes (`{deeper[0]}`): equal objects need not have equal attributes"
    for part in (key, val):
        if part is None:
            continue
        if isinstance(part, (ast.Dict, ast.List, ast.Set)) or (isinstance(part, ast.Call) and isinstance(part.func, ast.Name) and part.func.id in ("dict", "list", "set")):
            return "context", "a fresh mutable object is parked in the shared table (it is shared by whoever looks it up)"
        d = deps(part)
        if d is not None:
            return d
    return "pure", ""


def returns_rendering_of_param(f) -> tuple:
    """(param, rendering text) when a function returns (possibly through locals) a *rendering* of one of its parameters
    -- `str(p)`, `repr(p)`, `p.x.__name__`, `type(p)` -- as the value itself (not merely inside a comparison): memoised by
    `==` of p, the first of several equal-but-differently-named arguments fixes the answer for all of them."""
    rets = [x.value for x in walk_scope(f.node) if isinstance(x, ast.Return) and x.value is not None]
    seen = set()

    def value_exprs(e, depth=0):
        """expressions whose value can flow into e *as a value* (not through a comparison / test)"""
        out = [e]
        if isinstance(e, ast.Name) and e.id not in f.params and e.id not in seen and depth < 4:
            seen.add(e.id)
            for st in walk_scope(f.node):
                if isinstance(st, ast.Assign) and st.value is not None:
                    for t in st.targets:
                        for y in ast.walk(t):
                            if isinstance(y, ast.Name) and y.id == e.id:
                                v = st.value
                                out += value_exprs(v, depth + 1)
        elif isinstance(e, (ast.Tuple, ast.List)):
            for x in e.elts:
                out += value_exprs(x.value if isinstance(x, ast.Starred) else x, depth + 1)
        elif isinstance(e, ast.IfExp):
            out += value_exprs(e.body, depth + 1) + value_exprs(e.orelse, depth + 1)
        elif isinstance(e, ast.Call) and isinstance(e.func, ast.Attribute) and e.func.attr in ("rsplit", "split", "strip", "lower", "upper", "join", "format", "replace"):
            out += value_exprs(e.func.value, depth + 1)
        return out

    for r_ in rets:
        for e in value_exprs(r_):
            subj = None
            if isinstance(e, ast.Call) and isinstance(e.func, ast.Name) and e.func.id in ("str", "repr", "type", "format") and e.args:
                subj = e.args[0]
            elif isinstance(e, ast.Attribute) and e.attr in LOSSY_ATTRS:
                subj = e.value
            if subj is None:
                continue
            root = subj
            while isinstance(root, (ast.Attribute, ast.Subscript)):
                root = root.value
            if isinstance(root, ast.Name) and root.id in f.params:
                return root.id, norm(e)
    return None
