"""C07 -- on well-typed calls a decorated function is indistinguishable from the original.

Decided structurally:
  C07.1 exactly once, same objects: on every normal path through each wrapper
        `fn(*args, **kwargs)` is evaluated exactly once (never twice on any path) and the
        value returned is that call's result.
  C07.2 body not run on a violation: the parameter check dominates the call of fn and
        that call is unreachable from the failure handlers of the parameter check (needs
        the summary "_get_problem_arg has no normal exit", computed on its own CFG).
  C07.3 bind errors stay TypeError: signature.bind lies outside every try that has handlers.
  C07.4 metadata and descriptors: each wrapper is created under functools.wraps(fn);
        classmethod/staticmethod are rebuilt around the wrapped __func__; in property(...)
        each of fget/fset/fdel is derived from the same-named attribute.
  C07.5 generated-code hygiene: every hole of the exec'd `def` template is filled from a
        gensym result, an inspect.Parameter.name, a literal, or a string proven to be an
        identifier; gensym calls avoid all parameter names and the names already in scope.
  C07.6 parameter-kind exhaustiveness and emission order of the synthetic signature.
  C07.7 callable-kind coverage: the return annotation may only be applied to fn(...)'s
        direct result if coroutine functions are told apart first.
Not decided: that third-party checkers accept the synthetic functions.
"""
from __future__ import annotations

import ast

from ..cfg import Flow
from ..core import AnalysisError, RuleContext, need, norm, short
from ..model import FuncInfo, walk_scope, walk_with_lambdas
from ..roles import node_calls, roles_for
from ..typestate import NoReturn
from . import c05
from .c19 import is_passthrough_call, new_style_wrappers

EXPLANATION = __doc__

NORMAL = ("n", "t", "f", "loop", "done", "ret", "brk", "cont", "caught")


def run(ctx: RuleContext):
    m = ctx.model
    r = roles_for(m)
    ctx.sub(check_once, ctx, r)
    ctx.sub(check_body_not_run, ctx, r)
    ctx.sub(check_bind_outside_try, ctx, r)
    ctx.sub(check_metadata, ctx, r)
    ctx.sub(check_template_hygiene, ctx, r)
    ctx.sub(check_param_kinds, ctx, r, "C07.6")
    ctx.sub(check_coroutine_coverage, ctx, r)
    ctx.sub(check_exception_transparency, ctx, r)
    # C07.9: whether a call is checked is decided per call -- a decorator that looks at the disable switch (or at
    # `__no_type_check__`) when the function is *decorated* hands back an unchecked function for good: its body runs on
    # ill-typed arguments after the switch is turned off again (C19.1's decoration-time clause)
    from .c19 import check_no_decoration_time_switch

    ctx.reuse("C07.9", check_no_decoration_time_switch, ctx, "C07.9")
    ctx.sub(check_unwinding_cannot_raise, ctx, r)


# ------------------------------------------------------------------------ C07.10
def check_unwinding_cannot_raise(ctx, r):
    """The wrappers leave their context in a `finally:` -- whatever that clause raises *replaces* the result of a well-typed call, or the
    exception its body raised.  The pop primitive must therefore not raise of its own accord (a "stack out of sync" consistency check
    turns a well-typed call whose body advanced a generator suspended in another context into a RuntimeError)."""
    from .c05 import follow_delegate

    m = ctx.model
    pop = follow_delegate(m, r.pop)
    ctx.saw(pop)
    raises = [x for x in walk_scope(pop.node) if isinstance(x, ast.Raise)] + [x for x in walk_scope(pop.node) if isinstance(x, ast.Assert)]
    # ... nor the finally clauses themselves
    sites = []
    w = r.wrappers()
    for f in list(w["wraps"]) + list(w["impl"]) + [x for x in m.all_functions(include_typeguard=False) if x.cls is not None and x.name == "__exit__" and x.module.short == "_decorator"]:
        for t in walk_scope(f.node):
            if isinstance(t, ast.Try) and t.finalbody:
                for x in t.finalbody:
                    for y in ast.walk(x):
                        if isinstance(y, (ast.Raise, ast.Assert)):
                            sites.append((f, y))
    ctx.counters["unwinding_sites"] = 1 + len(w["wraps"])
    for x in raises:
        ctx.bad("C07.10", pop, x, f"`{short(x, 60)}`: the function that leaves a context can raise by itself; the wrappers call it in a `finally:`, so that exception replaces the result of "
                "a well-typed call or the exception raised by its body", construct="raise while unwinding the context")
    for f, y in sites:
        ctx.bad("C07.10", f, y, f"`{short(y, 60)}` in a `finally:` of the wrapper replaces the result / the exception of the wrapped call", construct="raise in the wrapper's finally")
    if not raises and not sites:
        ctx.ok("C07.10", pop.qualname, "leaving the context raises nothing of its own (no raise / assert in the pop primitive or in the wrappers' finally clauses)")


# ------------------------------------------------------------------------ C07.8
def check_exception_transparency(ctx, r):
    """An exception raised by the wrapped function comes back as that very exception: a handler around
    `fn(*args, **kwargs)` ends in a bare `raise`, and whatever else it does (attaching a note, reporting
    bindings) cannot itself raise out of the handler -- otherwise the helper's error replaces the user's
    (e.g. `e.add_note(...)` on an exception class that forbids setting attributes)."""
    m = ctx.model
    w = r.wrappers()
    impls = [impl for _, impl in new_style_wrappers(m, r)]
    n = 0
    storage_roles = set(r.CANON)
    for f in list(w["wraps"]) + impls:
        for t in [x for x in ast.walk(f.node) if isinstance(x, ast.Try)]:
            own = [c for b_ in t.body for c in ast.walk(b_) if isinstance(c, ast.Call) and isinstance(c.func, ast.Name) and c.func.id == "fn"]
            if not own:
                continue
            for hd in t.handlers:
                n += 1
                ctx.saw(f)
                names = [norm(x) for x in (hd.type.elts if isinstance(hd.type, ast.Tuple) else [hd.type])] if hd.type is not None else ["<bare>"]
                # (a) the handler re-raises the exception it caught on every path
                last = hd.body[-1] if hd.body else None
                reraises = isinstance(last, ast.Raise) and last.exc is None
                others = [x for x in ast.walk(hd) if isinstance(x, ast.Raise) and x.exc is not None
                          and not (isinstance(x.exc, ast.Name) and x.exc.id == hd.name and x.cause is None)]
                # raises inside nested defs / inner try-blocks that are caught again do not count
                def swallowed(node):
                    for inner in ast.walk(hd):
                        if isinstance(inner, ast.Try) and any(node is y for b_ in inner.body for y in ast.walk(b_)):
                            for ih in inner.handlers:
                                inames = [norm(x) for x in (ih.type.elts if isinstance(ih.type, ast.Tuple) else [ih.type])] if ih.type is not None else ["<bare>"]
                                if any(nm in ("Exception", "BaseException", "<bare>") for nm in inames) and not any(isinstance(y, ast.Raise) for y in ast.walk(ih)):
                                    return True
                    return False

                others = [x for x in others if not swallowed(x)]
                if others:
                    ctx.bad("C07.8", f, others[0], f"the handler `except {', '.join(names)}` around fn(*args, **kwargs) raises `{short(others[0], 50)}`: the caller does not get "
                            "the exception the wrapped function raised")
                    continue
                if not reraises:
                    ctx.bad("C07.8", f, hd, f"the handler `except {', '.join(names)}` around fn(*args, **kwargs) does not end in a bare `raise`: the wrapped function's exception "
                            "is swallowed or replaced")
                    continue
                # (b) nothing else in the handler can raise out of it
                loose = []
                for c in [c for x in hd.body for c in ast.walk(x) if isinstance(c, ast.Call)]:
                    if r.role_of_call(f, c) in storage_roles and r.role_of_call(f, c) in ("pop_shape_memo", "get_shape_memo"):
                        continue
                    if isinstance(c.func, ast.Name) and c.func.id in ("isinstance", "type", "id", "len"):
                        continue
                    if not swallowed(c):
                        loose.append(c)
                if loose:
                    ctx.bad("C07.8", f, loose[0], f"`{short(loose[0], 60)}` runs in the handler around fn(*args, **kwargs) without protection: if it raises (e.g. add_note on an "
                            "exception class that forbids setting attributes, a failing __repr__ while formatting), its error replaces the exception raised by the wrapped function",
                            construct=f"unprotected call in handler around fn: {short(loose[0], 60)}")
                else:
                    ctx.ok("C07.8", f.qualname, f"handler `except {', '.join(names)}` around fn(*args, **kwargs): re-raises; everything else it does is contained")
    ctx.counters["handlers_around_fn"] = n
    ctx.floor("C07.8", "handlers_around_fn", 1)


def checker_vars(m, jt: FuncInfo) -> dict:
    """freevars holding typechecker-wrapped synthetic functions: name -> 'param'|'full'."""
    made = {}
    for st in walk_scope(jt.node):
        if isinstance(st, ast.Assign) and isinstance(st.value, ast.Call):
            t = m.resolve_call(jt, st.value)
            if t.kind == "func" and t.target.name == "_make_fn_with_signature":
                outv = None
                for k in st.value.keywords:
                    if k.arg == "output" and isinstance(k.value, ast.Constant):
                        outv = k.value.value
                if outv is None and len(st.value.args) >= 5 and isinstance(st.value.args[4], ast.Constant):
                    outv = st.value.args[4].value
                tg = st.targets[0]
                nm = tg.elts[0].id if isinstance(tg, ast.Tuple) else (tg.id if isinstance(tg, ast.Name) else None)
                if nm:
                    made[nm] = "full" if outv else "param"
    return made


# ------------------------------------------------------------------------ C07.1
def _fn_calls(node, fname="fn"):
    return [c for c in node_calls(node) if isinstance(c.func, ast.Name) and c.func.id == fname]


def check_once(ctx, r):
    m = ctx.model
    w = r.wrappers()
    ws = new_style_wrappers(m, r)
    impls = {impl.qualname: impl for _, impl in ws}
    n_fn = 0
    targets = list(w["wraps"]) + list(impls.values())
    for f in targets:
        ctx.saw(f)
        n_fn += 1
        g = NoReturn(m).cfg(f)

        def impl_calls(node):
            """calls of the checking implementation, which calls fn itself (whether it got that far when it raises is unknown)"""
            if f.qualname in impls:
                return []
            return [c for c in node_calls(node) if m.resolve_call(f, c).kind == "func" and m.resolve_call(f, c).target.qualname in impls]

        def transfer(node, st, kind, succ):
            cnt = st
            calls = _fn_calls(node) + impl_calls(node)
            if calls and kind in NORMAL:
                cnt = min(cnt + len(calls), 3)
            elif calls:
                # the call itself may have raised (body ran or not): count it as run
                cnt = min(cnt + len(calls), 3)
            return (cnt,)

        fl = Flow(g, 0, transfer)
        # never twice on any path
        twice = False
        for n in g.live_nodes():
            for stt in fl.states_at(n):
                if stt >= 1 and _fn_calls(n):
                    twice = True
                    ctx.bad("C07.1", f, n.ast, "the wrapped function can be called a second time on a path on which it was "
                            "already called", path=fl.witness(n, stt))
                    break
            if twice:
                break
        # every normal return: count == 1 (or delegates to the impl) and the value is the result
        ok = not twice
        for n in g.live_nodes():
            if n.kind != "return":
                continue
            v = n.ast.value
            for stt in fl.states_at(n):
                after = stt + len(_fn_calls(n))
                if isinstance(v, ast.Name):
                    # `out = impl(..)` ... `return out`: the delegation was counted where it was evaluated
                    d_ = c05._assignments_to(f, v.id)
                    if len(d_) == 1 and d_[0][2] is None and isinstance(d_[0][1], ast.Call) and m.resolve_call(f, d_[0][1]).kind == "func" \
                            and m.resolve_call(f, d_[0][1]).target.qualname in impls:
                        stt = max(0, stt - 1)
                delegates = False
                if isinstance(v, ast.Name):
                    defs0 = c05._assignments_to(f, v.id)
                    if len(defs0) == 1 and defs0[0][2] is None and isinstance(defs0[0][1], ast.Call):
                        t0 = m.resolve_call(f, defs0[0][1])
                        if t0.kind == "func" and t0.target.qualname in impls:
                            v = defs0[0][1]
                if isinstance(v, ast.Call):
                    t = m.resolve_call(f, v)
                    if t.kind == "func" and t.target.qualname in impls:
                        delegates = True
                        # forwarding: the first two arguments are the wrapper's own *args/**kwargs objects
                        va, kw = f.node.args.vararg, f.node.args.kwarg
                        a = v.args
                        if not (va and kw and len(a) >= 2 and isinstance(a[0], ast.Name) and a[0].id == va.arg
                                and isinstance(a[1], ast.Name) and a[1].id == kw.arg):
                            ok = False
                            ctx.bad("C07.1", f, n.ast, "the checking implementation is not handed the wrapper's own args/kwargs objects")
                if delegates:
                    if stt != 0:
                        ok = False
                        ctx.bad("C07.1", f, n.ast, "fn is called and the checking implementation (which calls fn again) is invoked on the same path",
                                path=fl.witness(n, stt))
                    continue
                if after == 0:
                    # the result comes from a call the rule cannot see into (a method of a new object, a callable held in a variable): whether
                    # that runs fn is unknown -- no witness of "not called"
                    vv = v
                    if isinstance(vv, ast.Name):
                        dd = c05._assignments_to(f, vv.id)
                        vv = dd[0][1] if len(dd) == 1 and dd[0][2] is None else vv
                    if isinstance(vv, ast.Call):
                        tt = m.resolve_call(f, vv)
                        try:
                            from ..inventory import FUNCTIONS as _PINNED
                        except ImportError:
                            _PINNED = set()
                        if tt.kind in ("callout", "method", "unknown") or (tt.kind == "func" and tt.target.qualname not in _PINNED) or tt.kind == "class":
                            raise AnalysisError(f"C07.1: {f.qualname} returns the result of `{short(vv, 60)}`, which the rule cannot identify as the checking implementation or as fn")
                if after != 1:
                    ok = False
                    ctx.bad("C07.1", f, n.ast, f"a normal return is reached with the wrapped function called {after} times (must be exactly once)",
                            path=fl.witness(n, stt))
                    continue
                # the returned value is the call's result
                if is_passthrough_call(v):
                    continue
                if isinstance(v, ast.Name):
                    defs = c05._assignments_to(f, v.id)
                    if len(defs) == 1 and defs[0][2] is None and is_passthrough_call(defs[0][1]):
                        continue
                    ok = False
                    ctx.bad("C07.1", f, n.ast, f"the returned name `{v.id}` is not (only) the result of the single call fn(*args, **kwargs)")
                    continue
                ok = False
                ctx.bad("C07.1", f, n.ast, "the wrapper returns something other than the result object of fn(*args, **kwargs)")
        # falling off the end returns None instead of the result
        if g.falloff.id in g.reachable:
            ok = False
            last = [p for _, p in g.falloff.pred if p.ast is not None]
            ctx.bad("C07.1", f, last[0].ast if last else f.node, "the wrapper can fall off its end and return None instead of fn's result")
        # ... and `args` / `kwargs` still are what the caller passed: the wrapper does not re-bind them (to `bound.args, bound.kwargs`, to a
        # filtered copy ...): defaults would be materialised and keywords turned positional before the function -- or a decorator under
        # jaxtyped that looks at how it was called -- sees them
        fwd = {x.arg for x in (f.node.args.vararg, f.node.args.kwarg) if x is not None} if f.qualname not in impls else set(f.params[:2])
        for x in walk_scope(f.node):
            if isinstance(x, ast.Name) and isinstance(x.ctx, ast.Store) and x.id in fwd:
                ok = False
                ctx.bad("C07.1", f, x, f"`{x.id}` is re-bound before the call is forwarded: the decorated function no longer receives the caller's own argument list "
                        "(positional stays positional, keyword stays keyword, defaults stay unmaterialised)", construct=f"forwarded argument list {x.id} re-bound")
        # all calls of fn pass exactly *args, **kwargs
        for c in [c for n in g.live_nodes() for c in _fn_calls(n)]:
            if not is_passthrough_call(c):
                ok = False
                ctx.bad("C07.1", f, c, "fn is not called with exactly `*args, **kwargs` (positional stays positional, keyword stays keyword)")
        if ok:
            ctx.ok("C07.1", f.qualname, f"fn(*args, **kwargs) evaluated exactly once on every normal path ({fl.steps} product states); its result is what is returned")
    ctx.counters["wrapper_functions"] = n_fn
    ctx.floor("C07.1", "wrapper_functions", 3)


# ------------------------------------------------------------------------ C07.2
def check_body_not_run(ctx, r):
    m = ctx.model
    jt = m.func("_decorator.jaxtyped")
    cv = checker_vars(m, jt)
    need("param" in cv.values() and "full" in cv.values(), "synthetic parameter/return checkers not found in jaxtyped")
    pnames = {k for k, v in cv.items() if v == "param"}
    n = 0
    for w, impl in new_style_wrappers(m, r):
        ctx.saw(impl)
        g = NoReturn(m).cfg(impl)
        pnodes = [nd for nd in g.live_nodes() if any(isinstance(c.func, ast.Name) and c.func.id in pnames for c in node_calls(nd))]
        fnodes = [nd for nd in g.live_nodes() if _fn_calls(nd)]
        if not pnodes:
            ctx.bad("C07.2", impl, impl.node, "the parameters are no longer checked before the body runs", construct="no parameter-check call")
            continue
        need(fnodes, f"{impl.qualname}: call of fn not found")
        n += 1
        dom = g.dominators()
        for fnode in fnodes:
            if not any(p.id in dom[fnode.id] for p in pnodes):
                ctx.bad("C07.2", impl, fnode.ast, "the call of fn is not dominated by the parameter check: the body can run on unchecked arguments")
            else:
                ctx.ok("C07.2", impl.qualname, "the parameter check dominates the call of fn")
        # handlers of the try around the parameter check must not reach the call of fn
        for p in pnodes:
            tries = [t for t in ast.walk(impl.node) if isinstance(t, ast.Try) and any(x is p.ast for b in t.body for x in ast.walk(b))]
            if not tries:
                ctx.ok("C07.2", impl.qualname, "parameter check is not wrapped in a try: any failure propagates")
                continue
            tr = tries[-1] if len(tries) == 1 else min(tries, key=lambda t: t.end_lineno - t.lineno)
            hnodes = [nd for nd in g.live_nodes() if nd.kind == "handler" and any(nd.ast is h for h in tr.handlers)]
            for hn in hnodes:
                reach = g.reach_from(hn)
                hit = [fn_ for fn_ in fnodes if fn_.id in reach]
                if hit:
                    # witness: simple BFS path
                    ctx.bad("C07.2", impl, hn.ast, f"after a failed parameter check the handler `except {norm(hn.ast.type) if hn.ast.type is not None else ''}` "
                            "can fall through to the call of fn: the body runs although the arguments violate the annotations",
                            construct=f"except {norm(hn.ast.type) if hn.ast.type is not None else '<bare>'}: ... falls through to fn(*args, **kwargs)")
                else:
                    ctx.ok("C07.2", impl.qualname, f"handler `except {norm(hn.ast.type) if hn.ast.type is not None else ''}` [{hn.info.get('caught')}] always leaves by raising")
    ctx.counters["param_check_sites"] = n
    ctx.floor("C07.2", "param_check_sites", 1)
    # the summary this rests on
    gp = m.func("_decorator._get_problem_arg")
    if NoReturn(m).fn_never_returns(gp):
        ctx.ok("C07.2", gp.qualname, "summary: no normal exit (every path raises)")
    else:
        ctx.note("_get_problem_arg may return normally; handler paths are judged accordingly")


# ------------------------------------------------------------------------ C07.3
def check_bind_outside_try(ctx, r):
    m = ctx.model
    w = r.wrappers()
    n = 0
    for f in w["wraps"] + w["impl"]:
        for c in m.calls_in(f):
            if isinstance(c.func, ast.Attribute) and c.func.attr in ("bind", "bind_partial"):
                n += 1
                ctx.saw(f)
                bad = False
                for t in ast.walk(f.node):
                    if isinstance(t, ast.Try) and t.handlers and any(x is c for b in t.body for x in ast.walk(b)):
                        for h in t.handlers:
                            reraises = h.body and isinstance(h.body[-1], ast.Raise) and h.body[-1].exc is None
                            if not reraises:
                                bad = True
                                ctx.bad("C07.3", f, c, f"signature.bind lies inside a try whose handler `except {norm(h.type) if h.type is not None else ''}` "
                                        "does not re-raise unchanged: a call that does not bind would no longer raise the ordinary TypeError")
                if not bad:
                    ctx.ok("C07.3", f.qualname, "signature.bind is outside every converting handler")
    ctx.counters["bind_sites"] = n
    ctx.floor("C07.3", "bind_sites", 2)
    # the signature the wrapper binds against and the one the annotations are matched to are the *same* view of `fn`: `inspect.signature(fn)`
    # follows `__wrapped__`, and so does `get_type_hints`.  With `follow_wrapped=False` a `functools.wraps` decorator between jaxtyped and the
    # annotated function yields `(*args, **kwargs)`: no annotation finds its parameter, every argument goes unchecked and the body runs
    jt = m.func("_decorator.jaxtyped")
    for c in ast.walk(jt.node):
        if isinstance(c, ast.Call) and norm(c.func).split(".")[-1] == "signature":
            for k in c.keywords:
                if k.arg == "follow_wrapped" and isinstance(k.value, ast.Constant) and k.value.value is False:
                    ctx.bad("C07.3", jt, c, f"`{short(c, 60)}`: the signature is taken without following `__wrapped__`, while the annotations (get_type_hints) are those of the wrapped "
                            "function: under any `functools.wraps` decorator the parameters are `*args, **kwargs`, no annotation is attached to them and ill-typed arguments run the body",
                            construct="inspect.signature(.., follow_wrapped=False)")
    # the checkers are called with ONE `**` mapping: a second one (`**kwargs, **{output_name: out}`) raises TypeError ("multiple values") when a
    # function with a `**kwargs` parameter is called with a keyword that equals the generated name -- after the body has run, as a TypeCheckError
    for f in w["wraps"] + w["impl"]:
        for c in m.calls_in(f):
            stars = [k for k in c.keywords if k.arg is None]
            if len(stars) >= 2 and any(isinstance(k.value, ast.Name) and k.value.id == "kwargs" for k in stars):
                ctx.bad("C07.3", f, c, f"`{short(c, 70)}` passes the caller's keywords and a second `**` mapping: a caller keyword equal to a key of the second mapping (a function with "
                        "`**kwargs` called with `ret0=..`) makes the call raise TypeError, reported as a TypeCheckError after the body has already run",
                        construct="two ** mappings in one call")


# ------------------------------------------------------------------------ C07.4
def check_metadata(ctx, r):
    m = ctx.model
    jt = m.func("_decorator.jaxtyped")
    ctx.saw(jt)
    w = r.wrappers()
    for f in w["wraps"]:
        has = False
        for d in f.decorators:
            if isinstance(d, ast.Call) and m.resolve_call(jt, d).kind == "ext" and m.resolve_call(jt, d).target == "functools.wraps":
                has = True
                if len(d.args) == 1 and isinstance(d.args[0], ast.Name) and d.args[0].id == "fn" and not d.keywords:
                    ctx.ok("C07.4", f.qualname, "created under functools.wraps(fn)")
                else:
                    ctx.bad("C07.4", f, d, "functools.wraps is not applied to the decorated function itself (name, qualname, doc, module, "
                            "__wrapped__/signature would be wrong)")
        if not has:
            ctx.bad("C07.4", f, f.node, "a wrapper returned by jaxtyped is not created under functools.wraps(fn): __name__, __qualname__, "
                    "__doc__, __module__ and the signature of the original are lost", construct=f"def {f.name}: no functools.wraps(fn)")
    # every closure returned by jaxtyped must be a wraps-closure
    for st in walk_scope(jt.node):
        if isinstance(st, ast.Return) and isinstance(st.value, ast.Name):
            b = m.resolve_name(jt, st.value.id)
            if b.kind == "func" and b.target not in w["wraps"]:
                ctx.bad("C07.4", jt, st, f"jaxtyped returns the closure `{st.value.id}`, which is not created under functools.wraps(fn)")
            elif b.kind == "local":
                # last binding of the name must be a wraps closure: all defs named so are
                cands = [f for f in w["wraps"] + w["impl"] if f.name == st.value.id]
                if cands and not all(c in w["wraps"] for c in cands):
                    ctx.bad("C07.4", jt, st, f"jaxtyped returns `{st.value.id}`, one definition of which lacks functools.wraps(fn)")
    # nothing re-assigns the metadata that functools.wraps copied: `wrapper.__signature__ = <resolved signature>`
    # makes inspect.signature() report resolved / rewritten annotations instead of the ones in the source
    META = {"__signature__", "__name__", "__qualname__", "__doc__", "__module__", "__annotations__", "__defaults__", "__kwdefaults__", "__wrapped__", "__text_signature__"}
    wnames = {x.name for x in w["wraps"]}
    for fn_ in [jt] + list(w["wraps"]) + list(w["impl"]):
        for st in walk_scope(fn_.node):
            tgts = st.targets if isinstance(st, ast.Assign) else [st.target] if isinstance(st, (ast.AugAssign, ast.AnnAssign)) else []
            for t_ in tgts:
                if isinstance(t_, ast.Attribute) and t_.attr in META and isinstance(t_.value, ast.Name) and t_.value.id in wnames:
                    ctx.bad("C07.4", fn_, st, f"`{short(st, 70)}` overwrites metadata of the wrapper that functools.wraps had copied from the decorated function: "
                            f"`{t_.attr}` of the decorated function is no longer that of the original", construct=f"wrapper metadata re-assigned: {t_.attr}")
            if isinstance(st, ast.Expr) and isinstance(st.value, ast.Call) and norm(st.value.func) == "setattr" and st.value.args \
                    and isinstance(st.value.args[0], ast.Name) and st.value.args[0].id in wnames and len(st.value.args) > 1 \
                    and isinstance(st.value.args[1], ast.Constant) and st.value.args[1].value in META:
                ctx.bad("C07.4", fn_, st, f"`{short(st, 70)}` overwrites metadata of the wrapper that functools.wraps had copied from the decorated function",
                        construct=f"wrapper metadata re-assigned: {st.value.args[1].value}")
    # descriptor branches: `if isinstance(fn, K): return K(jaxtyped(fn.__func__, ...))`, also when the
    # kinds are driven from a table (`for kind in (classmethod, staticmethod): if isinstance(fn, kind): ...`)
    found = {}
    ctor_name = {}
    opaque_dispatch = []
    loops = {}  # loop variable -> tuple of kind names
    for st in ast.walk(jt.node):
        if isinstance(st, ast.For) and isinstance(st.target, ast.Name) and isinstance(st.iter, (ast.Tuple, ast.List)) and all(isinstance(e, ast.Name) for e in st.iter.elts):
            loops[st.target.id] = [e.id for e in st.iter.elts]
    # `if not isinstance(fn, K): <everything else; leaves>` followed by the K code is the same dispatch with the sides swapped:
    # it is read as `if isinstance(fn, K): <what follows> else: <everything else>`
    from .c13 import _always_leaves

    swapped = []
    for blk_owner in ast.walk(jt.node):
        for fld in ("body", "orelse", "finalbody"):
            blk = getattr(blk_owner, fld, None)
            if not (isinstance(blk, list) and blk and isinstance(blk[0], ast.stmt)):
                continue
            for i_, st in enumerate(blk):
                if isinstance(st, ast.If) and isinstance(st.test, ast.UnaryOp) and isinstance(st.test.op, ast.Not) and isinstance(st.test.operand, ast.Call) \
                        and isinstance(st.test.operand.func, ast.Name) and st.test.operand.func.id == "isinstance" and len(st.test.operand.args) == 2 \
                        and isinstance(st.test.operand.args[0], ast.Name) and st.test.operand.args[0].id == "fn":
                    if st.orelse:
                        swapped.append(ast.copy_location(ast.If(test=st.test.operand, body=st.orelse, orelse=st.body), st))
                    elif _always_leaves(st.body) and blk[i_ + 1:]:
                        swapped.append(ast.copy_location(ast.If(test=st.test.operand, body=blk[i_ + 1:], orelse=st.body), st))
    for st in list(ast.walk(jt.node)) + swapped:
        if isinstance(st, ast.If) and isinstance(st.test, ast.Call) and isinstance(st.test.func, ast.Name) and st.test.func.id == "isinstance" \
                and len(st.test.args) == 2 and isinstance(st.test.args[0], ast.Name) and st.test.args[0].id == "fn":
            second = st.test.args[1]
            if isinstance(second, ast.Name) and second.id in loops:
                for k_ in loops[second.id]:
                    found[k_] = st
                    ctor_name[k_] = second.id
            elif isinstance(second, ast.Name):
                found[second.id] = st
                ctor_name[second.id] = second.id
            else:
                opaque_dispatch.append(st)
    for n_ in ast.walk(jt.node):
        if isinstance(n_, ast.Call) and isinstance(n_.func, ast.Name) and n_.func.id == "type" and n_.args and norm(n_.args[0]) == "fn":
            opaque_dispatch.append(n_)
        if isinstance(n_, ast.Match):
            opaque_dispatch.append(n_)
    # a kind that is named in jaxtyped (or in a function jaxtyped calls) but not in a branch the rule reads: no verdict
    mention_scopes = [jt.node]
    for c_ in [n_ for n_ in walk_scope(jt.node) if isinstance(n_, ast.Call)]:
        t_ = m.resolve_call(jt, c_)
        if t_.kind == "func" and t_.target is not jt and t_.target.module is jt.module and t_.target.parent is None:
            mention_scopes.append(t_.target.node)
    for kind in ("classmethod", "staticmethod", "property"):
        if found.get(kind) is None:
            ms = [n_ for sc in mention_scopes for n_ in (walk_scope(sc) if sc is jt.node else ast.walk(sc)) if isinstance(n_, ast.Name) and n_.id == kind and isinstance(n_.ctx, ast.Load)]
            if ms:
                opaque_dispatch.append(ms[0])
    for kind in ("classmethod", "staticmethod"):
        st = found.get(kind)
        if st is None:
            if opaque_dispatch:
                raise AnalysisError(f"C07.4: no `isinstance(fn, {kind})` branch recognised, but jaxtyped dispatches on the kind of fn through `{short(opaque_dispatch[0], 60)}`")
            ctx.bad("C07.4", jt, jt.node, f"jaxtyped has no branch for `{kind}` objects: the descriptor kind is lost", construct=f"no isinstance(fn, {kind}) branch")
            continue
        rets = [x for x in st.body if isinstance(x, ast.Return)]
        if not rets and not any(isinstance(x, ast.Return) for b_ in st.body for x in ast.walk(b_)):
            # the branch only records what to do (a plan, a flag); the descriptor is rebuilt elsewhere, by code the rule does not follow
            raise AnalysisError(f"C07.4: the `isinstance(fn, {kind})` branch of jaxtyped returns nothing itself (`{short(st.body[0], 50)}`): where the {kind} is rebuilt was not followed")
        ok = False
        for rt in rets:
            v = rt.value
            if isinstance(v, ast.Call) and isinstance(v.func, ast.Name) and v.func.id == ctor_name[kind] and len(v.args) == 1:
                inner = v.args[0]
                if _is_rewrap(m, jt, inner, "fn.__func__"):
                    ok = True
        if ok:
            ctx.ok("C07.4", jt.qualname, f"{kind}: rebuilt as {kind}(jaxtyped(fn.__func__, typechecker=typechecker))")
        else:
            ctx.bad("C07.4", jt, st, f"a `{kind}` is not rebuilt as {kind}(jaxtyped(fn.__func__, typechecker=typechecker)): descriptor kind or checker is lost")
    st = found.get("property")
    if st is None and opaque_dispatch:
        raise AnalysisError(f"C07.4: no `isinstance(fn, property)` branch recognised, but jaxtyped dispatches on the kind of fn through `{short(opaque_dispatch[0], 60)}`")
    if st is None:
        ctx.bad("C07.4", jt, jt.node, "jaxtyped has no branch for `property` objects", construct="no isinstance(fn, property) branch")
    else:
        rets = [x for b in st.body for x in ast.walk(b) if isinstance(x, ast.Return)]
        ok_all = bool(rets)
        for rt in rets:
            v = rt.value
            if not (isinstance(v, ast.Call) and isinstance(v.func, ast.Name) and v.func.id == "property"):
                ok_all = False
                ctx.bad("C07.4", jt, rt, "a property is not rebuilt as a property")
                continue
            if any(k.arg is None for k in v.keywords) or any(isinstance(a, ast.Starred) for a in v.args):
                raise AnalysisError(f"C07.4: the property is rebuilt from a mapping / sequence (`{short(v, 50)}`); which accessor ends up where is not followed")
            kws = {k.arg: k.value for k in v.keywords}
            for i, a in enumerate(v.args):
                kws[("fget", "fset", "fdel", "doc")[i]] = a
            for acc in ("fget", "fset", "fdel"):
                val = kws.get(acc)
                if val is None:
                    ok_all = False
                    ctx.bad("C07.4", jt, rt, f"the rebuilt property drops `{acc}`")
                    continue
                srcs = [val]
                if isinstance(val, ast.Name):
                    srcs = [d[1] for d in c05._assignments_to(jt, val.id)]
                flat = []
                for s in srcs:
                    # `None if fn.fget is None else jaxtyped(fn.fget, ...)`: both arms are sources
                    if isinstance(s, ast.IfExp) and f"fn.{acc}" in norm(s.test):
                        flat += [s.body, s.orelse]
                    else:
                        flat.append(s)
                for s in flat:
                    if isinstance(s, ast.Constant) and s.value is None:
                        continue
                    good = _is_rewrap(m, jt, s, f"fn.{acc}")
                    if not good:
                        ok_all = False
                        ctx.bad("C07.4", jt, rt, f"property accessor `{acc}` is built from `{norm(s)}` instead of jaxtyped(fn.{acc}, typechecker=typechecker)",
                                construct=f"property {acc} <- {norm(s)}")
        if ok_all:
            ctx.ok("C07.4", jt.qualname, "property: each of fget/fset/fdel is derived from the same-named accessor")


def _is_rewrap(m, jt, e, argtext: str) -> bool:
    """`jaxtyped(<arg>, typechecker=typechecker)`, also through a local bound once to
    `functools.partial(jaxtyped, typechecker=typechecker)`."""
    if not (isinstance(e, ast.Call) and len(e.args) == 1 and norm(e.args[0]) == argtext):
        return False
    if isinstance(e.func, ast.Name) and e.func.id == "jaxtyped":
        return any(k.arg == "typechecker" and norm(k.value) == "typechecker" for k in e.keywords)
    if isinstance(e.func, ast.Name) and not e.keywords:
        defs = c05._assignments_to(jt, e.func.id)
        if len(defs) == 1 and defs[0][2] is None and isinstance(defs[0][1], ast.Call):
            p_ = defs[0][1]
            t = m.resolve_call(jt, p_)
            if t.kind == "ext" and t.target == "functools.partial" and len(p_.args) == 1 and norm(p_.args[0]) == "jaxtyped":
                return any(k.arg == "typechecker" and norm(k.value) == "typechecker" for k in p_.keywords) and len(p_.keywords) == 1
    return False


# ------------------------------------------------------------------------ C07.5
class Taint:
    """Is a string-valued expression in _make_fn_with_signature / _make_argpiece safe to
    splice into the generated `def` source?"""

    def __init__(self, ctx, m, f: FuncInfo):
        self.ctx, self.m, self.f = ctx, m, f
        self.reasons = []  # positively unsafe sources (unvalidated string parameters)
        self.unknown = []  # expressions whose provenance could not be followed
        self.stack = set()

    def dict_values_safe(self, dname, depth) -> bool:
        """every `dname[k] = v` stores a safe v"""
        from ..model import FuncInfo as _FI

        scope = self.f
        # a free variable of a nested helper: the stores are in the enclosing function
        while isinstance(scope, _FI) and dname not in scope.local_names() and dname not in scope.params and isinstance(scope.parent, _FI):
            scope = scope.parent
        stores = []
        for n in walk_scope(scope.node):
            if isinstance(n, ast.Assign):
                for t in n.targets:
                    if isinstance(t, ast.Subscript) and isinstance(t.value, ast.Name) and t.value.id == dname:
                        stores.append(n.value)
        if not stores:
            self.unknown.append(f"dict {dname}")
            return False
        owner = self if scope is self.f else Taint(self.ctx, self.m, scope)
        ok = all(owner.safe(v, depth + 1) for v in stores)
        if owner is not self:
            self.reasons += owner.reasons
            self.unknown += owner.unknown
        return ok

    def param_iter_var(self, name) -> bool:
        """name is bound by `for name in <list of inspect.Parameter>` / `[name] = <list>`"""
        for n in walk_scope(self.f.node):
            if isinstance(n, ast.For) and isinstance(n.target, ast.Name) and n.target.id == name:
                return True
            if isinstance(n, ast.Assign) and isinstance(n.targets[0], (ast.List, ast.Tuple)) and len(n.targets[0].elts) == 1 \
                    and isinstance(n.targets[0].elts[0], ast.Name) and n.targets[0].elts[0].id == name:
                return True
        if name in getattr(self, "_comp_vars", set()):
            return True
        for n in ast.walk(self.f.node):
            if isinstance(n, ast.comprehension) and isinstance(n.target, ast.Name) and n.target.id == name:
                return True
        return name in self.f.params and name == "p"

    def guarded_identifier(self, name_node: ast.Name) -> bool:
        """use of a raw string name under a dominating `<name>.isidentifier()` test"""
        for n in ast.walk(self.f.node):
            if isinstance(n, ast.If):
                t = n.test
                has_ident = any(isinstance(c, ast.Call) and isinstance(c.func, ast.Attribute) and c.func.attr == "isidentifier"
                                and isinstance(c.func.value, ast.Name) and c.func.value.id == name_node.id for c in ast.walk(t))
                negated = isinstance(t, ast.UnaryOp) and isinstance(t.op, ast.Not)
                if has_ident and not negated and any(x is name_node for b in n.body for x in ast.walk(b)):
                    if isinstance(t, ast.BoolOp) and isinstance(t.op, ast.Or):
                        continue
                    return True
                if has_ident and negated and any(x is name_node for b in n.orelse for x in ast.walk(b)):
                    return True
        return False

    def safe(self, e, depth=0) -> bool:
        if depth > 12:
            return False
        if isinstance(e, ast.Constant) and isinstance(e.value, str):
            return True
        if isinstance(e, ast.JoinedStr):
            return all(self.safe(v.value if isinstance(v, ast.FormattedValue) else v, depth + 1) for v in e.values)
        if isinstance(e, ast.BinOp) and isinstance(e.op, ast.Add):
            return self.safe(e.left, depth + 1) and self.safe(e.right, depth + 1)
        if isinstance(e, ast.Call):
            t = self.m.resolve_call(self.f, e)
            if t.kind == "func" and t.target.name == "_gensym":
                return True
            if t.kind == "func" and t.target.name == "_make_argpiece":
                sub = Taint(self.ctx, self.m, t.target)
                rets = [x.value for x in walk_scope(t.target.node) if isinstance(x, ast.Return)]
                ok = all(sub.safe_in_callee(v, e, self) for v in rets)
                self.reasons += sub.reasons
                return ok
            if isinstance(e.func, ast.Attribute) and e.func.attr == "join" and isinstance(e.func.value, ast.Constant) and len(e.args) == 1:
                a = e.args[0]
                if isinstance(a, ast.Name):
                    return self.list_safe(a.id, depth + 1)
                return False
            if t.kind == "func":
                # a helper (nested or module-level): every value it returns must be safe
                sub = Taint(self.ctx, self.m, t.target)
                rets = [x.value for x in walk_scope(t.target.node) if isinstance(x, ast.Return) and x.value is not None]
                if rets and all(sub.safe(v, depth + 1) for v in rets):
                    return True
                self.reasons += sub.reasons
                self.unknown += sub.unknown or [f"helper {t.target.name}"]
                return False
            self.unknown.append(norm(e)[:50])
            return False
        if isinstance(e, ast.Attribute) and e.attr == "name" and isinstance(e.value, ast.Name) and self.param_iter_var(e.value.id):
            return True  # inspect.Parameter.name is an identifier by construction
        if isinstance(e, (ast.ListComp, ast.GeneratorExp)):
            comp_vars = {g.target.id for g in e.generators if isinstance(g.target, ast.Name)}
            self._comp_vars = getattr(self, "_comp_vars", set()) | comp_vars
            return self.safe(e.elt, depth + 1)
        if isinstance(e, (ast.List, ast.Tuple)):
            return all(self.safe(x, depth + 1) for x in e.elts)
        if isinstance(e, ast.IfExp):
            return self.safe(e.body, depth + 1) and self.safe(e.orelse, depth + 1)
        if isinstance(e, ast.Subscript) and isinstance(e.value, ast.Name):
            return self.dict_values_safe(e.value.id, depth)
        if isinstance(e, ast.Name):
            key = e.id
            if key in self.stack:
                return True
            defs = c05._assignments_to(self.f, key)
            if key in self.f.params and not defs:
                if self.guarded_identifier(e):
                    return True
                if self._only_literal_arguments(key):
                    return True
                self.reasons.append((e, f"`{key}` is an unvalidated string parameter"))
                return False
            self.stack.add(key)
            try:
                ok = True
                for stn, val, idx in defs:
                    if idx is not None:
                        ok = False
                        continue
                    if isinstance(val, ast.Name) and val.id in self.f.params:
                        # `x = name` under an isidentifier guard
                        if self.guarded_identifier(val):
                            continue
                        self.reasons.append((stn, f"`{key}` is assigned the unvalidated parameter `{val.id}`"))
                        ok = False
                    elif not self.safe(val, depth + 1):
                        ok = False
                if key in self.f.params and not self.guarded_identifier(e):
                    # a parameter that is also re-assigned: the parameter value itself may flow here
                    self.reasons.append((e, f"`{key}` may still hold the unvalidated parameter value"))
                    ok = False
                if not defs:
                    self.unknown.append(key)
                return ok and bool(defs)
            finally:
                self.stack.discard(key)
        self.unknown.append(norm(e)[:50])
        return False

    def list_safe(self, lname, depth) -> bool:
        apps = []
        for n in walk_scope(self.f.node):
            if isinstance(n, ast.Call) and isinstance(n.func, ast.Attribute) and n.func.attr in ("append", "extend", "insert") \
                    and isinstance(n.func.value, ast.Name) and n.func.value.id == lname:
                apps.append(n.args[-1])
        return bool(apps) and all(self.safe(a, depth + 1) for a in apps)

    def safe_in_callee(self, v, call, caller: "Taint") -> bool:
        """f-strings of _make_argpiece: holes are p.name and dict lookups passed by the caller."""
        if isinstance(v, ast.JoinedStr):
            for x in v.values:
                if isinstance(x, ast.FormattedValue):
                    h = x.value
                    if isinstance(h, ast.Attribute) and h.attr == "name" and isinstance(h.value, ast.Name) and h.value.id == self.f.params[0]:
                        continue
                    if isinstance(h, ast.Subscript) and isinstance(h.value, ast.Name) and h.value.id in self.f.params:
                        i = self.f.params.index(h.value.id)
                        arg = call.args[i] if i < len(call.args) else next((k.value for k in call.keywords if k.arg == h.value.id), None)
                        if isinstance(arg, ast.Name) and caller.dict_values_safe(arg.id, 0):
                            continue
                    self.unknown.append(f"hole `{norm(h)}` of the argument template")
                    return False
            return True
        return isinstance(v, ast.Constant)


def check_template_hygiene(ctx, r):
    m = ctx.model
    f = m.func("_decorator._make_fn_with_signature")
    ctx.saw(f)
    execs = [c for c in m.calls_in(f) if isinstance(c.func, ast.Name) and c.func.id == "exec"]
    need(len(execs) == 1, f"_make_fn_with_signature: expected one exec call, found {len(execs)}")
    src = execs[0].args[0]
    tpl = src
    if isinstance(src, ast.Name):
        defs = c05._assignments_to(f, src.id)
        need(len(defs) == 1, "template variable has several definitions")
        tpl = defs[0][1]
    need(isinstance(tpl, ast.JoinedStr), "the exec'd source is not an f-string template (shape not recognised)")
    holes = [v.value for v in tpl.values if isinstance(v, ast.FormattedValue)]
    ctx.counters["template_holes"] = len(holes)
    ctx.floor("C07.5", "template_holes", 4)
    for h in holes:
        t = Taint(ctx, m, f)
        if t.safe(h):
            ctx.ok("C07.5", f.qualname, f"template hole `{norm(h)}` is filled only from literals, generated names and parameter names")
        elif not t.reasons:
            # nothing positively unsafe was found: the provenance could simply not be followed
            raise AnalysisError(f"C07.5: the provenance of template hole `{{{norm(h)}}}` could not be followed ({'; '.join(t.unknown[:2]) or 'unrecognised expression'})")
        else:
            why = "; ".join(sorted({x[1] for x in t.reasons})) or "provenance not proven identifier-safe"
            ctx.bad("C07.5", f, tpl, f"hole `{{{norm(h)}}}` of the generated `def` is filled from a string that is not proven to be an "
                    f"identifier ({why}): a callable whose __name__ is not an identifier (lambda, functools.partial, keyword-named) makes "
                    "decoration fail with SyntaxError", construct=f"template hole {{{norm(h)}}}: {why}")
    # gensym discipline
    n = 0
    for c in m.calls_in(f):
        t = m.resolve_call(f, c)
        if t.kind == "func" and t.target.name == "_gensym":
            n += 1
            a0 = c.args[0] if c.args else None
            txt = norm(a0)
            incremental = None
            if isinstance(a0, ast.Name) and a0.id not in f.params:
                # the names to avoid are kept in a local: what it is built from, and -- when it is updated in place -- whether every key
                # stored into the exec scope is also added to it (then it equals scope.keys() | <its initial contents>)
                defs_ = c05._assignments_to(f, a0.id)
                txt = " ".join(norm(d[1]) for d in defs_ if d[1] is not None)
                adds = [x for x in walk_scope(f.node) if isinstance(x, ast.Call) and isinstance(x.func, ast.Attribute) and isinstance(x.func.value, ast.Name)
                        and x.func.value.id == a0.id and x.func.attr in ("add", "update")]
                augs = [x for x in walk_scope(f.node) if isinstance(x, ast.AugAssign) and isinstance(x.target, ast.Name) and x.target.id == a0.id]
                if not adds and not augs and defs_:
                    # a snapshot: taken outside the loop in which this name is generated while that loop goes on storing generated names into the
                    # exec scope -> names generated in earlier iterations are not avoided (two parameters can end up sharing one slot)
                    loops_c = [lp for lp in walk_scope(f.node) if isinstance(lp, (ast.For, ast.While)) and any(y is c for y in ast.walk(lp))]
                    if loops_c:
                        lp0 = loops_c[-1]
                        inside = all(any(y is d[0] for y in ast.walk(lp0)) for d in defs_)
                        grows = [st for st in ast.walk(lp0) if isinstance(st, ast.Assign) and any(isinstance(tg, ast.Subscript) and norm(tg.value) == "scope" for tg in st.targets)]
                        if not inside and grows:
                            ctx.bad("C07.5", f, c, f"`{short(c, 60)}` avoids `{a0.id}`, a set computed once before the loop (`{short(defs_[0][0], 50)}`), while the loop goes on storing "
                                    f"generated names into the exec scope (`{short(grows[0], 40)}`): a name generated for an earlier parameter is not avoided, so two parameters can "
                                    "share one annotation / default slot (a parameter literally called `T0` shifts the numbering)", construct=f"stale set of names to avoid: {a0.id}")
                            continue
                if adds or augs:
                    if augs or any(x.func.attr != "add" or len(x.args) != 1 for x in adds) or not defs_:
                        raise AnalysisError(f"C07.5: the set of names to avoid (`{a0.id}`) is maintained in a way the rule cannot follow")
                    added = {norm(x.args[0]) for x in adds}
                    keys = set()
                    # a key stored after the last generation from this set (and not in a loop with one) needs no avoiding any more
                    gens = [x for x in walk_scope(f.node) if isinstance(x, ast.Call) and x.args and isinstance(x.args[0], ast.Name) and x.args[0].id == a0.id
                            and m.resolve_call(f, x).kind == "func" and m.resolve_call(f, x).target.name == "_gensym"]
                    last_gen = max(x.lineno for x in gens)
                    gen_loops = [lp for lp in walk_scope(f.node) if isinstance(lp, (ast.For, ast.While)) and any(y is g_ for g_ in gens for y in ast.walk(lp))]
                    for st in walk_scope(f.node):
                        if isinstance(st, ast.Assign) and st.lineno > last_gen and not any(y is st for lp in gen_loops for y in ast.walk(lp)):
                            continue
                        if isinstance(st, ast.Assign):
                            for tg in st.targets:
                                if isinstance(tg, ast.Subscript) and norm(tg.value) == "scope":
                                    keys.add(norm(tg.slice))
                                if isinstance(tg, ast.Name) and tg.id == "scope" and isinstance(st.value, ast.Dict):
                                    keys |= {norm(k_) for k_ in st.value.keys if k_ is not None}
                    incremental = keys <= added or all(k_ in added or k_ in txt for k_ in keys)
                    if not incremental:
                        raise AnalysisError(f"C07.5: `{a0.id}` is updated in place, and not every key stored in the exec scope ({sorted(keys - added)}) is "
                                            "visibly added to it; whether generated names avoid the scope cannot be decided")
                    txt += " scope"
            mentions_params = "param_names" in txt or "signature.parameters" in txt
            if not mentions_params:
                ctx.bad("C07.5", f, c, "a generated name is not kept distinct from the parameter names of the decorated function: "
                        "a parameter called e.g. T0/default0/ret0 would collide with it")
            else:
                ctx.ok("C07.5", f.qualname, f"`{short(c, 70)}` avoids the parameter names")
            # names stored into the exec scope must avoid the keys already there
            stored = any(isinstance(st, ast.Assign) and isinstance(st.value, ast.Call) and st.value is c for st in walk_scope(f.node))
            tgt = None
            for st in walk_scope(f.node):
                if isinstance(st, ast.Assign) and st.value is c and isinstance(st.targets[0], ast.Name):
                    tgt = st.targets[0].id
            if tgt and any(isinstance(st, ast.Assign) and any(isinstance(tg, ast.Subscript) and norm(tg.value) == "scope" and norm(tg.slice) == tgt
                                                              for tg in st.targets) for st in walk_scope(f.node)):
                if "scope" not in txt:
                    ctx.bad("C07.5", f, c, f"`{tgt}` is stored in the exec scope but is not generated to avoid the names already in that scope")
                else:
                    ctx.ok("C07.5", f.qualname, f"`{tgt}` avoids the names already in the exec scope")
    ctx.counters["gensym_calls"] = n
    ctx.floor("C07.5", "gensym_calls", 3)
    gs = m.func("_decorator._gensym")
    ctx.saw(gs)
    # the candidate is compared with the names to avoid inside a loop that advances it
    names_p = gs.params[0]
    tests = [x for x in walk_scope(gs.node) if isinstance(x, ast.Compare) and len(x.ops) == 1 and isinstance(x.ops[0], (ast.In, ast.NotIn)) and norm(x.comparators[0]) == names_p]
    in_loop = [t for t in tests if any(isinstance(lp, (ast.While, ast.For)) and any(y is t for y in ast.walk(lp)) for lp in walk_scope(gs.node))]
    if in_loop:
        ctx.ok("C07.5", gs.qualname, f"retries until the candidate is absent from the names to avoid (`{norm(in_loop[0])}` inside a loop)")
    elif tests:
        raise AnalysisError("C07.5: _gensym tests the candidate against the names to avoid, but not in a recognised retry loop")
    else:
        ctx.bad("C07.5", gs, gs.node, "_gensym never compares its candidate with the names to avoid: the generated name can collide with a parameter / a name already in scope",
                construct="_gensym: no membership test against the names to avoid")


# ------------------------------------------------------------------------ C07.6
KINDS = ["POSITIONAL_ONLY", "POSITIONAL_OR_KEYWORD", "VAR_POSITIONAL", "KEYWORD_ONLY", "VAR_KEYWORD"]


def check_param_kinds(ctx, r, tag):
    m = ctx.model
    f = m.func("_decorator._make_fn_with_signature")
    ctx.saw(f)
    kind_list = {}
    chain_else_assert = False
    for st in ast.walk(f.node):
        if isinstance(st, ast.If) and isinstance(st.test, ast.Compare) and len(st.test.ops) == 1 and isinstance(st.test.ops[0], (ast.Eq, ast.Is)):
            l, rr = st.test.left, st.test.comparators[0]
            if isinstance(l, ast.Attribute) and l.attr == "kind" and isinstance(rr, ast.Attribute) and rr.attr in KINDS:
                for x in st.body:
                    for c in ast.walk(x):
                        if isinstance(c, ast.Call) and isinstance(c.func, ast.Attribute) and c.func.attr == "append" and isinstance(c.func.value, ast.Name):
                            kind_list.setdefault(rr.attr, []).append(c.func.value.id)
    # table-driven: G = ((inspect.Parameter.KIND, lst), ...); for kind, group in G: if p.kind == kind: group.append(p)
    tables = {}
    for st in walk_scope(f.node):
        if isinstance(st, ast.Assign) and len(st.targets) == 1 and isinstance(st.targets[0], ast.Name) and isinstance(st.value, (ast.Tuple, ast.List)) \
                and st.value.elts and all(isinstance(e, ast.Tuple) and len(e.elts) == 2 and isinstance(e.elts[0], ast.Attribute) and e.elts[0].attr in KINDS
                                          and isinstance(e.elts[1], ast.Name) for e in st.value.elts):
            tables[st.targets[0].id] = [(e.elts[0].attr, e.elts[1].id) for e in st.value.elts]
    for st in ast.walk(f.node):
        if isinstance(st, ast.For) and isinstance(st.iter, ast.Name) and st.iter.id in tables and isinstance(st.target, ast.Tuple) and len(st.target.elts) == 2 \
                and all(isinstance(e, ast.Name) for e in st.target.elts):
            kv, gv = st.target.elts[0].id, st.target.elts[1].id
            for x in ast.walk(st):
                if isinstance(x, ast.If) and isinstance(x.test, ast.Compare) and len(x.test.ops) == 1 and isinstance(x.test.ops[0], (ast.Eq, ast.Is)) \
                        and isinstance(x.test.left, ast.Attribute) and x.test.left.attr == "kind" and norm(x.test.comparators[0]) == kv \
                        and any(isinstance(c, ast.Call) and isinstance(c.func, ast.Attribute) and c.func.attr == "append" and norm(c.func.value) == gv for b_ in x.body for c in ast.walk(b_)):
                    for k_, l_ in tables[st.iter.id]:
                        kind_list.setdefault(k_, []).append(l_)
    missing = [k for k in KINDS if k not in kind_list]
    if missing and not kind_list:
        raise AnalysisError(f"{tag}: how _make_fn_with_signature sorts the parameters by kind was not recognised (neither an if-chain on p.kind nor a (kind, list) table)")
    if missing:
        ctx.bad(tag, f, f.node, f"parameter kind(s) {missing} are not classified: such parameters fall into `assert False` / are dropped from the synthetic signature",
                construct=f"kinds without a branch: {missing}")
    else:
        ctx.ok(tag, f.qualname, f"all five inspect.Parameter kinds are classified: { {k: v[0] for k, v in kind_list.items()} }")
    lists = [v[0] for k, v in kind_list.items()]
    if len(set(lists)) != len(lists):
        ctx.bad(tag, f, f.node, f"two parameter kinds are collected in the same list: {kind_list}", construct=f"kind->list {kind_list}")
    # emission order: the top-level statement in which each list is consumed (iterated, unpacked or
    # indexed) -- a `for` loop, a comprehension, `[p] = lst`, `lst[0]`, `*lst`
    order = {}
    read_anywhere = {}
    body_stmts = list(f.node.body)
    for idx, st in enumerate(body_stmts):
        for kind, ls in kind_list.items():
            l = ls[0]
            if any(isinstance(x, ast.Call) and isinstance(x.func, ast.Attribute) and x.func.attr == "append" and norm(x.func.value) == l for x in ast.walk(st)) \
                    and not any(isinstance(x, (ast.For, ast.comprehension)) and isinstance(x.iter, ast.Name) and x.iter.id == l for x in ast.walk(st)):
                continue  # the classification / an extra parameter being added to the list
            emits = False
            for x in ast.walk(st):
                if isinstance(x, (ast.For, ast.comprehension)) and isinstance(x.iter, ast.Name) and x.iter.id == l:
                    emits = True
                if isinstance(x, ast.Assign) and isinstance(x.value, ast.Name) and x.value.id == l and isinstance(x.targets[0], (ast.List, ast.Tuple)):
                    emits = True
                if isinstance(x, ast.Subscript) and isinstance(x.value, ast.Name) and x.value.id == l and isinstance(x.ctx, ast.Load):
                    emits = True
                if isinstance(x, ast.Starred) and isinstance(x.value, ast.Name) and x.value.id == l:
                    emits = True
                # `argstr_pieces.extend(<something built from the list>)` / `argstr_pieces += ...`
                if isinstance(x, ast.Call) and isinstance(x.func, ast.Attribute) and x.func.attr in ("extend", "append") and norm(x.func.value).startswith("argstr") \
                        and any(isinstance(y, ast.Name) and y.id == l for a in x.args for y in ast.walk(a)):
                    emits = True
                if isinstance(x, ast.AugAssign) and norm(x.target).startswith("argstr") and any(isinstance(y, ast.Name) and y.id == l for y in ast.walk(x.value)):
                    emits = True
                if isinstance(x, ast.Name) and x.id == l and isinstance(x.ctx, ast.Load):
                    read_anywhere[kind] = True
            if emits:
                order.setdefault(kind, []).append(idx)
    for k in KINDS:
        if k in kind_list and k not in order and read_anywhere.get(k):
            raise AnalysisError(f"{tag}: the list of {k} parameters (`{kind_list[k][0]}`) is read, but not in a form recognised as its emission into the synthetic signature")
    if not missing:
        seq = []
        for k in KINDS:
            if k not in order:
                ctx.bad(tag, f, f.node, f"parameters of kind {k} are collected but never emitted into the synthetic signature", construct=f"{k} not emitted")
            elif len(order[k]) != 1:
                ctx.bad(tag, f, f.node, f"parameters of kind {k} are emitted {len(order[k])} times", construct=f"{k} emitted {len(order[k])}x")
            else:
                seq.append(order[k][0])
        if len(seq) == 5:
            if seq != sorted(seq) or len(set(seq)) != 5:
                ctx.bad(tag, f, f.node, "the five parameter groups are not emitted in grammar order (positional-only, positional-or-keyword, *args, keyword-only, **kwargs)",
                        construct=f"emission order {dict(zip(KINDS, seq))}")
            else:
                ctx.ok(tag, f.qualname, "groups emitted once each, in grammar order")
    # separators: "/" with the positional-only group, bare "*" only without *args and with keyword-only
    seps = {}
    for st in ast.walk(f.node):
        if isinstance(st, ast.If):
            for x in st.body + st.orelse:
                for c in ast.walk(x):
                    if isinstance(c, ast.Call) and isinstance(c.func, ast.Attribute) and c.func.attr == "append" and c.args and isinstance(c.args[0], ast.Constant) and c.args[0].value in ("/", "*"):
                        seps.setdefault(c.args[0].value, []).append((st, x in st.orelse or any(x is o or any(y is x for y in ast.walk(o)) for o in st.orelse)))
    if "/" not in seps:
        ctx.bad(tag, f, f.node, "the positional-only separator `/` is never emitted", construct="no '/' separator")
    else:
        st, _ = seps["/"][0]
        po = kind_list.get("POSITIONAL_ONLY", ["?"])[0]
        if po in norm(st.test):
            ctx.ok(tag, f.qualname, "`/` is emitted with the positional-only group")
        else:
            ctx.bad(tag, f, st, "`/` is not tied to the presence of positional-only parameters")
    if "*" not in seps:
        ctx.bad(tag, f, f.node, "the keyword-only separator `*` is never emitted", construct="no '*' separator")
    else:
        ko = kind_list.get("KEYWORD_ONLY", ["?"])[0]
        if any(ko in norm(st.test) for st, _ in seps["*"]):
            ctx.ok(tag, f.qualname, "bare `*` is emitted when there are keyword-only parameters and no *args")
        else:
            ctx.bad(tag, f, seps["*"][0][0], "bare `*` is not tied to the presence of keyword-only parameters")
    # annotations and defaults: _make_argpiece
    ap = m.func("_decorator._make_argpiece")
    ctx.saw(ap)
    rets = [x for x in walk_scope(ap.node) if isinstance(x, ast.Return)]

    def template(e, depth=0):
        """(literal text, holes) of a piece built from f-strings, `+` and locals bound once to such pieces; None if something else"""
        if isinstance(e, ast.Constant) and isinstance(e.value, str):
            return e.value, []
        if isinstance(e, ast.JoinedStr):
            txt, holes = "", []
            for v in e.values:
                if isinstance(v, ast.Constant):
                    txt += str(v.value)
                elif isinstance(v, ast.FormattedValue):
                    sub = template(v.value, depth + 1) if isinstance(v.value, ast.Name) and depth < 3 else None
                    if sub is not None:
                        txt += sub[0]
                        holes += sub[1]
                    else:
                        holes.append(norm(v.value))
            return txt, holes
        if isinstance(e, ast.BinOp) and isinstance(e.op, ast.Add):
            a_, b_ = template(e.left, depth + 1), template(e.right, depth + 1)
            return None if a_ is None or b_ is None else (a_[0] + b_[0], a_[1] + b_[1])
        if isinstance(e, ast.Name) and depth < 3 and e.id not in ap.params:
            ds_ = c05._assignments_to(ap, e.id)
            if len(ds_) == 1 and ds_[0][1] is not None and ds_[0][2] is None:
                return template(ds_[0][1], depth + 1)
        return None

    temps = [template(x.value) for x in rets if x.value is not None]
    if not temps or any(t_ is None for t_ in temps):
        raise AnalysisError(f"{tag}: how {ap.qualname} builds the text of one parameter was not recognised")
    has_plain = any("=" not in t_[0] for t_ in temps)
    has_default = any("=" in t_[0] for t_ in temps)
    if has_plain and has_default:
        ctx.ok(tag, ap.qualname, "emits `name: ann` and `name: ann = default`")
    else:
        ctx.bad(tag, ap, ap.node, "the argument template no longer distinguishes parameters with and without default", construct="_make_argpiece templates")
    for x, t_ in zip([x for x in rets if x.value is not None], temps):
        if not any("annotation" in h for h in t_[1]):
            ctx.bad(tag, ap, x, "a parameter is emitted without its annotation: it would not be type-checked")


# ------------------------------------------------------------------------ C07.7
CORO_MARKERS = ("iscoroutinefunction", "isawaitable", "iscoroutine", "CO_COROUTINE", "CoroutineType", "isasyncgenfunction_and_coroutine")


def check_coroutine_coverage(ctx, r):
    m = ctx.model
    jt = m.func("_decorator.jaxtyped")
    cv = checker_vars(m, jt)
    fulls = {k for k, v in cv.items() if v == "full"}
    for w, impl in new_style_wrappers(m, r):
        ctx.saw(impl)
        applies = [c for c in m.calls_in(impl) if isinstance(c.func, ast.Name) and c.func.id in fulls]
        if not applies:
            ctx.note("no return check found in the implementation")
            continue
        marker = None
        for f in (jt, w, impl):
            for n in walk_with_lambdas(f.node):
                if isinstance(n, ast.Attribute) and n.attr in CORO_MARKERS:
                    marker = n
                if isinstance(n, ast.Name) and n.id in CORO_MARKERS:
                    marker = n
        fncalls = [st for st in walk_scope(impl.node) if isinstance(st, ast.Assign) and is_passthrough_call(st.value)]
        construct = fncalls[0] if fncalls else impl.node
        if marker is None:
            ctx.bad("C07.7", impl, construct, "the return annotation is checked against the direct result of fn(*args, **kwargs) and coroutine "
                    "functions are never told apart: for a well-typed `async def` the coroutine object itself is type-checked against "
                    "the return annotation and the call is rejected")
        else:
            ctx.ok("C07.7", impl.qualname, f"coroutine functions are told apart (`{norm(marker)}`) before the return annotation is applied")


def _only_literal_arguments(self, pname: str) -> bool:
    """The parameter `pname` of a *new local helper* (a nested function, not in the pinned inventory) only ever receives string literals
    written in the package (its default and the argument at every call site): text of the maintainer, not of the decorated function."""
    f = self.f
    from ..model import FuncInfo as _FI

    if not isinstance(getattr(f, "parent", None), _FI):
        return False
    try:
        from ..inventory import FUNCTIONS as _FN
    except ImportError:
        return False
    if f.qualname in _FN:
        return False
    a = f.node.args
    pos = [x.arg for x in a.posonlyargs + a.args]
    defaults = dict(zip(reversed(pos), reversed(a.defaults)))
    for x, d in zip(a.kwonlyargs, a.kw_defaults):
        if d is not None:
            defaults[x.arg] = d
    sites = [c for c in ast.walk(f.parent.node) if isinstance(c, ast.Call) and isinstance(c.func, ast.Name) and c.func.id == f.name]
    refs = [n for n in ast.walk(f.parent.node) if isinstance(n, ast.Name) and n.id == f.name and isinstance(n.ctx, ast.Load)]
    if not sites or len(refs) != len(sites):
        return False
    for c in sites:
        if any(isinstance(x, ast.Starred) for x in c.args) or any(k.arg is None for k in c.keywords):
            return False
        val = None
        if pname in pos and pos.index(pname) < len(c.args):
            val = c.args[pos.index(pname)]
        for k in c.keywords:
            if k.arg == pname:
                val = k.value
        if val is None:
            val = defaults.get(pname)
        if not (isinstance(val, ast.Constant) and isinstance(val.value, str)):
            return False
    return True


Taint._only_literal_arguments = _only_literal_arguments
