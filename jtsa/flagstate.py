"""Entry-value typestate for the two transient thread-local flags (the PyTree
flatten-mode flag and the '?' leaf label).

Abstract value of the flag inside one activation: E (whatever it was on entry), SET,
CLR, or ERR (a guarded setter raised because the flag was already set: the ambiguity
AnnotationError is in flight).  `eknown` records what the activation has learnt about E:
'?', 'falsy' or 'truthy'.  At every exit (normal, Exception, BaseException) the value must
equal E:   E | (CLR and eknown=falsy) | (SET and eknown=truthy) | (ERR on raising exits).

If the function cannot be re-entered (call graph with dispatch pseudo-edges) and is the
only place that sets the flag, E is known to be falsy, so `set ... finally: clear` is
exact and a missing / Exception-only clear is a leak.  If it can be re-entered, only the
save/restore idioms are accepted.  Guard-correlated facts on syntactically identical pure
conditions make `if c: set ... if c: clear` exact.
"""
from __future__ import annotations

import ast
from typing import Optional

from .callgraph import CallGraph
from .cfg import Flow
from .core import AnalysisError, need, norm, short
from .model import FuncInfo, Model, walk_scope
from .roles import Roles, node_calls
from .typestate import NoReturn, _is_whole_value

NORMAL = ("n", "t", "f", "loop", "done", "ret", "brk", "cont", "caught")


class Flag:
    def __init__(self, tl, attr):
        self.tl = tl
        self.attr = attr
        self.setters: list = []
        self.clearers: list = []
        self.getters: list = []
        self.mixed: list = []  # functions that both set and clear/restore (e.g. context managers)
        self.cms: list = []  # classes whose __enter__/__exit__ set / clear the flag (class-based context managers)
        self.guarded_setters: set = set()  # setters that raise when the flag is already set
        self.raising_getters: set = set()
        self.exchange: set = set()  # setters that return the value the flag had before (`old = tl.v; tl.v = True; return old`)

    @property
    def name(self):
        return f"{self.tl[1]}.{self.attr}"

    def __repr__(self):
        return f"<Flag {self.name} set={[f.name for f in self.setters]} clear={[f.name for f in self.clearers]}>"


def _parametric_polarity(model, roles, fn):
    """A primitive that sets *or* clears the flag depending on one boolean parameter:
    `def set_flag(on): if on: tl.v = True else: tl.v = False` / `tl.v = on` / `tl.v = bool(on)`.
    Returns (parameter index among the call's positional arguments, parameter name, True if a truthy
    argument sets the flag) or None."""
    params = [p for p in fn.params if p not in ("self", "cls")]
    body = [st for st in fn.node.body if not (isinstance(st, ast.Expr) and isinstance(st.value, ast.Constant))]
    if len(body) != 1 or not params:
        return None
    st = body[0]

    def store_of(stmts):
        if len(stmts) == 1 and isinstance(stmts[0], ast.Assign) and len(stmts[0].targets) == 1 and isinstance(stmts[0].targets[0], ast.Attribute) \
                and roles.tl_of_expr(fn, stmts[0].targets[0]) is not None:
            return stmts[0].value
        return None

    if isinstance(st, ast.If) and st.orelse:
        t, neg = st.test, False
        while isinstance(t, ast.UnaryOp) and isinstance(t.op, ast.Not):
            t, neg = t.operand, not neg
        if isinstance(t, ast.Name) and t.id in params:
            a, b = store_of(st.body), store_of(st.orelse)
            if a is not None and b is not None:
                pa, pb = value_polarity(model, fn, a), value_polarity(model, fn, b)
                if {pa, pb} == {"truthy", "falsy"}:
                    return params.index(t.id), t.id, (pa == "truthy") != neg
        return None
    v = store_of([st])
    if v is not None:
        if isinstance(v, ast.Call) and isinstance(v.func, ast.Name) and v.func.id == "bool" and len(v.args) == 1:
            v = v.args[0]
        neg = False
        while isinstance(v, ast.UnaryOp) and isinstance(v.op, ast.Not):
            v, neg = v.operand, not neg
        if isinstance(v, ast.Name) and v.id in params:
            return params.index(v.id), v.id, not neg
    return None


def _returns_previous(roles, fn) -> bool:
    """`old = tl.v` (or getattr(tl, 'v', d)) as the first access of the flag, every return hands back `old`, `old` is bound once"""
    body = [st for st in fn.node.body if not (isinstance(st, ast.Expr) and isinstance(st.value, ast.Constant))]
    if len(body) < 3 or not isinstance(body[0], ast.Assign) or len(body[0].targets) != 1 or not isinstance(body[0].targets[0], ast.Name):
        return False
    old, v = body[0].targets[0].id, body[0].value
    if isinstance(v, ast.Call) and isinstance(v.func, ast.Name) and v.func.id == "getattr" and len(v.args) >= 2 and isinstance(v.args[1], ast.Constant):
        v = ast.Attribute(value=v.args[0], attr=v.args[1].value, ctx=ast.Load())
    if not (isinstance(v, ast.Attribute) and roles.tl_of_expr(fn, v) is not None):
        return False
    stores = [n for n in walk_scope(fn.node) if isinstance(n, ast.Name) and n.id == old and isinstance(n.ctx, ast.Store)]
    rets = [n for n in walk_scope(fn.node) if isinstance(n, ast.Return)]
    return len(stores) == 1 and bool(rets) and all(isinstance(r_.value, ast.Name) and r_.value.id == old for r_ in rets) \
        and not any(isinstance(n, (ast.If, ast.While, ast.For, ast.Try, ast.With)) for n in walk_scope(fn.node))


def discover_flags(model: Model, roles: Roles, stack_tl) -> list:
    flags: dict = {}
    by_fn: dict = {}
    for o in roles.ops:
        if o.tl == stack_tl or not isinstance(o.fn, FuncInfo):
            continue
        by_fn.setdefault(o.fn.qualname, []).append(o)
    for q, ops in by_fn.items():
        fn = model.functions[q]
        stores = [o for o in ops if o.op == "store"]
        loads = [o for o in ops if o.op == "load"]
        key = None
        for o in ops:
            key = (o.tl, o.attr.split(".")[0])
        fl = flags.setdefault(key, Flag(key[0], key[1]))
        if stores:
            vals = []
            for n in walk_scope(fn.node):
                if isinstance(n, ast.Assign):
                    for t in n.targets:
                        if isinstance(t, ast.Attribute) and roles.tl_of_expr(fn, t) is not None:
                            vals.append(n.value)
            if not vals:
                raise AnalysisError(f"{q}: store to thread-local flag in an unrecognised form")
            par0 = _parametric_polarity(model, roles, fn)
            if par0 is not None:
                if not hasattr(fl, "parametric"):
                    fl.parametric = {}
                fl.parametric[q] = par0
                fl.setters.append(fn)
                continue
            falsy = [value_polarity(model, fn, v) == "falsy" for v in vals]
            truthy = [value_polarity(model, fn, v) == "truthy" or isinstance(v, ast.JoinedStr) for v in vals]
            if all(falsy):
                fl.clearers.append(fn)
            elif all(truthy):
                fl.setters.append(fn)
                if _returns_previous(roles, fn):
                    fl.exchange.add(q)
                if any(isinstance(n, ast.Raise) for n in walk_scope(fn.node)) and loads:
                    fl.guarded_setters.add(q)
            else:
                par = _parametric_polarity(model, roles, fn)
                if par is not None:
                    if not hasattr(fl, "parametric"):
                        fl.parametric = {}
                    fl.parametric[q] = par
                    fl.setters.append(fn)  # (counts as the primitive that can set; call sites decide by their argument)
                else:
                    fl.mixed.append(fn)
        elif loads:
            fl.getters.append(fn)
            if any(isinstance(n, ast.Raise) for n in walk_scope(fn.node)):
                fl.raising_getters.add(q)
    out = [f for f in flags.values() if f.setters or f.clearers or f.mixed]
    # a function that stores one polarity itself but obtains the other through a primitive (or
    # suspends in between: a generator context manager) both sets and clears: it is 'mixed'
    for fl in out:
        prim_set = {x.qualname for x in fl.setters}
        prim_clr = {x.qualname for x in fl.clearers}
        for lst, other in ((fl.setters, prim_clr), (fl.clearers, prim_set)):
            for fn in list(lst):
                calls_other = False
                for n in walk_scope(fn.node):
                    if isinstance(n, ast.Call):
                        t = model.resolve_call(fn, n)
                        if t.kind == "func" and t.target.qualname in other:
                            calls_other = True
                if calls_other or any(isinstance(n, (ast.Yield, ast.YieldFrom)) for n in walk_scope(fn.node)):
                    lst.remove(fn)
                    fl.guarded_setters.discard(fn.qualname)
                    fl.mixed.append(fn)
    for fl in out:
        getq = {g.qualname for g in fl.getters}
        for st in fl.setters:
            if st.qualname in fl.guarded_setters:
                continue
            if any(isinstance(n, ast.Raise) for n in walk_scope(st.node)):
                # the refusal is decided through a helper that reads the flag
                for c in [n for n in walk_scope(st.node) if isinstance(n, ast.Call)]:
                    t = model.resolve_call(st, c)
                    if t.kind == "func" and t.target.qualname in getq:
                        fl.guarded_setters.add(st.qualname)
        # getters that delegate to a helper getter and raise
        for f in model.all_functions(include_typeguard=False):
            if f.module.short != "_storage" or f in fl.getters or f in fl.setters or f in fl.clearers or f in fl.mixed:
                continue
            calls_getter = any(isinstance(n, ast.Call) and model.resolve_call(f, n).kind == "func" and model.resolve_call(f, n).target.qualname in getq for n in walk_scope(f.node))
            touches_other = any(isinstance(n, ast.Call) and model.resolve_call(f, n).kind == "func" and model.resolve_call(f, n).target in fl.setters + fl.clearers for n in walk_scope(f.node))
            if calls_getter and not touches_other and f.cls is None:
                fl.getters.append(f)
                getq.add(f.qualname)
                if any(isinstance(n, ast.Raise) for n in walk_scope(f.node)):
                    fl.raising_getters.add(f.qualname)
        # class-based context managers
        prim = {x.qualname for x in fl.setters + fl.clearers + fl.mixed}
        for c in model.classes.values():
            en, ex = c.methods.get("__enter__"), c.methods.get("__exit__")
            if en is None or ex is None:
                continue
            def touches(fn):
                for n in walk_scope(fn.node):
                    if isinstance(n, ast.Call):
                        t = model.resolve_call(fn, n)
                        if t.kind == "func" and t.target.qualname in prim:
                            return True
                    if isinstance(n, ast.Attribute) and isinstance(n.ctx, ast.Store):
                        r_ = roles.tl_of_expr(fn, n)
                        if r_ is not None and r_[0] == fl.tl:
                            return True
                return False
            if touches(en) or touches(ex):
                fl.cms.append(c)
    return out


def value_polarity(model, fn, v, depth=0):
    """'truthy' | 'falsy' | None for a value stored into a flag; a local name is followed to
    all its definitions in fn (they must agree)."""
    if isinstance(v, ast.Constant):
        return "truthy" if v.value else "falsy"
    if isinstance(v, ast.JoinedStr) and any(isinstance(x, ast.Constant) and x.value for x in v.values):
        return "truthy"
    if _is_module_sentinel(model, fn, v):
        return "truthy"
    if isinstance(v, ast.Name) and depth < 2 and isinstance(fn, FuncInfo) and v.id in fn.local_names() and v.id not in fn.params:
        pols = set()
        for n in walk_scope(fn.node):
            if isinstance(n, ast.Assign):
                for t in n.targets:
                    if isinstance(t, ast.Name) and t.id == v.id:
                        pols.add(value_polarity(model, fn, n.value, depth + 1))
                    elif any(isinstance(x, ast.Name) and x.id == v.id for x in ast.walk(t)):
                        pols.add(None)
            elif isinstance(n, (ast.AugAssign, ast.AnnAssign, ast.For, ast.With, ast.NamedExpr)):
                tg = getattr(n, "target", None)
                if tg is not None and any(isinstance(x, ast.Name) and x.id == v.id for x in ast.walk(tg)):
                    pols.add(None)
        if len(pols) == 1:
            return pols.pop()
    return None


def _is_module_sentinel(model, fn, v) -> bool:
    """A module-level name bound once to a (truthy) object such as `object()`."""
    if not isinstance(v, ast.Name):
        return False
    b = model.resolve_name(fn, v.id)
    if b.kind != "modvar":
        return False
    vals = b.target[0].assigns.get(b.target[1], [])
    return len(vals) == 1 and isinstance(vals[0], ast.Call)


def _pure_stable(test, fn: FuncInfo) -> bool:
    """A condition made of names / attribute chains / constants / is-comparisons / not,
    whose root names are never re-bound in the function (parameters, closure vars)."""
    assigned = fn.local_names()
    for n in ast.walk(test):
        if isinstance(n, (ast.Call, ast.Subscript, ast.BinOp, ast.Await, ast.Lambda, ast.IfExp,
                          ast.ListComp, ast.DictComp, ast.SetComp, ast.GeneratorExp, ast.NamedExpr)):
            return False
        if isinstance(n, ast.Name) and n.id in assigned:
            return False
    return True


def _canon_cond(test):
    """(text, polarity) with leading `not`s and `is not`/`!=` folded into polarity."""
    pol = True
    t = test
    while isinstance(t, ast.UnaryOp) and isinstance(t.op, ast.Not):
        pol = not pol
        t = t.operand
    if isinstance(t, ast.Compare) and len(t.ops) == 1:
        op = t.ops[0]
        if isinstance(op, ast.IsNot):
            t2 = ast.Compare(left=t.left, ops=[ast.Is()], comparators=t.comparators)
            return norm(t2), not pol
        if isinstance(op, ast.NotEq):
            t2 = ast.Compare(left=t.left, ops=[ast.Eq()], comparators=t.comparators)
            return norm(t2), not pol
    return norm(t), pol


class FlagResult:
    def __init__(self, fn, flag, flow, cfg, bad, reentrant, sole_setter):
        self.fn, self.flag, self.flow, self.cfg = fn, flag, flow, cfg
        self.bad = bad  # list of (exit_node, state, reason)
        self.reentrant = reentrant
        self.sole_setter = sole_setter


def analyse_flag_function(model: Model, roles: Roles, cg: CallGraph, flag: Flag, fn: FuncInfo,
                          noret: NoReturn, init_state=None, judge_normal_exit=True) -> FlagResult:
    setq = {f.qualname for f in flag.setters}
    clrq = {f.qualname for f in flag.clearers}
    getq = {f.qualname for f in flag.getters}
    g = noret.cfg(fn)

    def role(call):
        t = model.resolve_call(fn, call)
        if t.kind == "func":
            q = t.target.qualname
            par = getattr(flag, "parametric", {}).get(q)
            if par is not None:
                idx, pname, truthy_sets = par
                arg = call.args[idx] if idx < len(call.args) else next((k.value for k in call.keywords if k.arg == pname), None)
                if isinstance(arg, ast.Constant):
                    return ("set" if bool(arg.value) == truthy_sets else "clr", q)
                raise AnalysisError(f"{fn.qualname}: `{norm(call)[:60]}` sets or clears flag {flag.name} depending on a run-time value")
            if q in setq:
                return ("set", q)
            if q in clrq:
                return ("clr", q)
            if q in getq:
                return ("get", q)
        return None

    # is fn re-entrant (can a call made by fn reach fn again)?
    succ = set(cg.edges.get(fn.qualname, ())) | set(cg.ref_edges.get(fn.qualname, ()))
    for nf in fn.nested.values():
        succ.add(nf.qualname)
    roots = sorted(succ)
    if cg.callouts.get(fn.qualname):
        roots += [f.qualname for f in cg.instancechecks]
    reach = cg.reachable(roots)
    reentrant = fn.qualname in reach
    # sole setter: every call site of every setter lies in fn
    sole = not [x for x in flag.mixed if x.qualname != fn.qualname]
    for s in flag.setters:
        for caller, _ in cg.callers(s):
            if caller.qualname != fn.qualname:
                sole = False
    e0 = "falsy" if (sole and not reentrant) else "?"

    def is_flag_attr(e) -> bool:
        t = roles.tl_of_expr(fn, e)
        return t is not None and t[0] == flag.tl and t[1] and t[1][0] == flag.attr

    percall: dict = {}
    direct: dict = {}  # node id -> ('set'|'clr'|'restore:<var>'|'save:<var>')
    for n in g.live_nodes():
        lst = []
        cs = node_calls(n)
        for i, c in enumerate(cs):
            ro = role(c)
            if ro is not None:
                lst.append((c, ro, i, len(cs)))
        percall[n.id] = lst
        a = n.ast
        if n.kind == "stmt" and isinstance(a, ast.Assign):
            for t in a.targets:
                if isinstance(t, ast.Attribute) and is_flag_attr(t):
                    v = a.value
                    pol = value_polarity(model, fn, v)
                    if pol is not None:
                        direct[n.id] = "set" if pol == "truthy" else "clr"
                    elif isinstance(v, ast.JoinedStr):
                        direct[n.id] = "set"
                    elif isinstance(v, (ast.Name, ast.Attribute)):
                        direct[n.id] = "restore:" + norm(v)
                    else:
                        raise AnalysisError(f"{fn.qualname}: store of an unrecognised value into flag {flag.name}: `{norm(a)}`")
            if len(a.targets) == 1 and isinstance(a.targets[0], (ast.Name, ast.Attribute)) and not is_flag_attr(a.targets[0]):
                v = a.value
                if isinstance(v, ast.Attribute) and is_flag_attr(v):
                    direct[n.id] = "save:" + norm(a.targets[0])
                elif isinstance(v, ast.Call) and isinstance(v.func, ast.Name) and v.func.id == "getattr" and v.args and is_flag_attr(
                        ast.Attribute(value=v.args[0], attr=v.args[1].value if len(v.args) > 1 and isinstance(v.args[1], ast.Constant) else "?", ctx=ast.Load())):
                    direct[n.id] = "save:" + norm(a.targets[0])

    def saved_var(node, call):
        """`v = <getter>()` / `self.v = <getter>()`: key of the saved entry value."""
        a = node.ast
        if node.kind == "stmt" and isinstance(a, ast.Assign) and a.value is call and len(a.targets) == 1 and isinstance(a.targets[0], (ast.Name, ast.Attribute)):
            return norm(a.targets[0])
        return None

    def transfer(node, st, kind, succ_node):
        val, ek, saved, facts = st
        saved_d = dict(saved)
        facts_d = dict(facts)
        is_exc = kind not in NORMAL
        if node.kind in ("unwind", "dispatch"):
            return (st,)
        # re-binding a saved variable forgets it
        if node.kind == "stmt" and isinstance(node.ast, ast.Assign) and not is_exc:
            for t in node.ast.targets:
                if isinstance(t, (ast.Name, ast.Attribute)) and norm(t) in saved_d:
                    del saved_d[norm(t)]
        outs = []
        cur = (val, ek)
        exc_states = set()
        lst = percall.get(node.id, ())
        if not lst:
            exc_states.add(cur)
        for c, (ro, q), i, ncalls in lst:
            v, e = cur
            head = i > 0 or any(g.oracle.expr(a) for a in c.args)
            if head:
                exc_states.add(cur)
            if ro == "set":
                # exceptional edge out of the setter: pre-state; a guarded setter raises
                # because the flag is already set (ambiguity error in flight)
                if q in flag.guarded_setters:
                    exc_states.add(("ERR", e) if v != "CLR" else (v, e))
                    if v == "E" and e == "?":
                        e = "falsy"  # normal return of a guarded setter proves E was cleared
                    elif v == "E" and e == "truthy":
                        # the setter would have raised: normal continuation infeasible
                        cur = None
                        break
                    elif v == "SET":
                        cur = None  # set while set: raises
                        break
                else:
                    exc_states.add((v, e))
                if q in flag.exchange:
                    # the setter hands back what the flag was: `was = set_flag()` saves the entry value like `was = get_flag()`
                    sv = saved_var(node, c)
                    if sv is not None and v == "E" and not is_exc:
                        saved_d[sv] = "E"
                cur = ("SET", e)
            elif ro == "clr":
                cur = ("CLR" if v != "ERR" else "ERR", e)
                exc_states.add(cur)  # release: post-state on its exceptional edge
            elif ro == "get":
                if q in flag.raising_getters:
                    exc_states.add(cur)
                sv = saved_var(node, c)
                if sv is not None and v == "E" and not is_exc:
                    saved_d[sv] = "E"
                exc_states.add(cur)
            tail = (i < ncalls - 1) or not _is_whole_value(node, c)
            if tail and cur is not None:
                exc_states.add(cur)
        dv = direct.get(node.id)
        if dv is not None and is_exc and (dv == "clr" or dv.startswith("restore:")):
            # a plain attribute store that releases: post-state on its exceptional edge too
            # (same convention as for the trivial clear function)
            new_exc = set()
            for (v, e) in exc_states or {cur}:
                if dv == "clr":
                    new_exc.add(("CLR" if v != "ERR" else "ERR", e))
                elif saved_d.get(dv.split(":", 1)[1]) == "E":
                    new_exc.add(("E", e))
                else:
                    new_exc.add((v, e))
            exc_states = new_exc
        if dv is not None and cur is not None and not is_exc:
            v, e = cur
            if dv == "set":
                cur = ("SET", e)
            elif dv == "clr":
                cur = ("CLR" if v != "ERR" else "ERR", e)
            elif dv.startswith("restore:"):
                var = dv.split(":", 1)[1]
                if saved_d.get(var) == "E":
                    cur = ("E", e)
                else:
                    raise AnalysisError(f"{fn.qualname}: flag {flag.name} is assigned from `{var}`, which is not a saved entry value")
            elif dv.startswith("save:"):
                if v == "E":
                    saved_d[dv.split(":", 1)[1]] = "E"
        if is_exc:
            res = exc_states
        else:
            res = {cur} if cur is not None else set()
        final = []
        for v, e in res:
            fd = dict(facts_d)
            if node.kind in ("test", "while") and kind in ("t", "f"):
                truth = kind == "t"
                # tests of a saved entry value
                t = node.ast
                pol = True
                while isinstance(t, ast.UnaryOp) and isinstance(t.op, ast.Not):
                    pol = not pol
                    t = t.operand
                if isinstance(t, (ast.Name, ast.Attribute)) and norm(t) in saved_d:
                    learnt = "truthy" if (truth == pol) else "falsy"
                    if e != "?" and e != learnt:
                        continue  # infeasible
                    e = learnt
                elif _pure_stable(node.ast, fn):
                    text, p = _canon_cond(node.ast)
                    tv = truth == p
                    if text in fd and fd[text] != tv:
                        continue  # infeasible: same pure condition, opposite outcome
                    fd[text] = tv
            final.append((v, e, tuple(sorted(saved_d.items())), tuple(sorted(fd.items()))))
        return tuple(final)

    fl = Flow(g, init_state if init_state is not None else ("E", e0, (), ()), transfer)
    bad = []
    for ex, is_raise in ((g.exit, False), (g.exit_e, True), (g.exit_b, True)):
        if ex is g.exit and not judge_normal_exit:
            continue
        for st in fl.states_at(ex):
            v, e = st[0], st[1]
            ok = v == "E" or (v == "CLR" and e == "falsy") or (v == "SET" and e == "truthy") or (v == "ERR" and is_raise)
            if not ok:
                bad.append((ex, st))
    return FlagResult(fn, flag, fl, g, bad, reentrant, sole)


def analyse_cm(model: Model, roles: Roles, cg: CallGraph, flag: Flag, cls, noret: NoReturn):
    """A class-based context manager: __enter__ runs from the entry value; every normal exit
    state of __enter__ is an entry state of __exit__ (same activation region, same E), and every
    exit of __exit__ -- and every raising exit of __enter__ -- must have the entry value.
    Returns (results, ok)."""
    en, ex = cls.methods["__enter__"], cls.methods["__exit__"]
    r_en = analyse_flag_function(model, roles, cg, flag, en, noret, judge_normal_exit=False)
    results = [r_en]
    mids = set(r_en.flow.states_at(r_en.cfg.exit))
    # instance attributes written in __enter__ are read in __exit__ through the same receiver
    # name by convention (self); re-key if the receivers are named differently
    s_en, s_ex = (en.params or ["self"])[0], (ex.params or ["self"])[0]
    for st in sorted(mids, key=repr):
        v, e, saved, facts = st
        if s_en != s_ex:
            saved = tuple((k.replace(s_en + ".", s_ex + ".", 1), x) for k, x in saved)
        r_ex = analyse_flag_function(model, roles, cg, flag, ex, noret, init_state=(v, e, saved, ()))
        results.append(r_ex)
    return results, not any(r.bad for r in results)


def functions_touching(model: Model, cg: CallGraph, flag: Flag) -> list:
    out = {}
    cm_methods = {m.qualname for c in flag.cms for m in c.methods.values()}
    for f in flag.mixed:
        if f.qualname not in cm_methods:
            out[f.qualname] = f
    prims = {x.qualname for x in flag.setters + flag.clearers + flag.getters}
    for f in flag.setters + flag.clearers:
        for caller, _ in cg.callers(f):
            # every function that calls a setter / clearer and is not itself one of the primitives -- also inside
            # the storage module (a context-manager helper defined next to the primitives)
            if isinstance(caller, FuncInfo) and caller.qualname not in prims and caller.qualname not in cm_methods:
                out[caller.qualname] = caller
    return list(out.values())
