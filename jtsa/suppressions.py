"""Named suppressions: one symbol each, with a reason.  Nothing wider than one symbol."""

SHARED_WRITE_SUPPRESSIONS = {
    "_typeguard._type_hints_map": {
        "function": "_typeguard._CallMemo.__init__",
        "reason": "WeakKeyDictionary cache keyed by the function object under check; PyTree._check "
        "creates a fresh `accepts_leaftype` function per check, so the key is private to the "
        "activation (never shared between threads); entries vanish with the function",
    },
    "_typeguard._functions_map": {
        "function": "_typeguard.find_function",
        "reason": "code-object -> function cache of the vendored typeguard, only consulted when "
        "check_argument_types()/check_return_type() are called WITHOUT a memo; every call site in "
        "the package passes the memo explicitly (verified on every run), so find_function is "
        "unreachable from jaxtyping's checks",
        "verify": "callers_pass_memo",
    },
}
