"""CLI of the jtsa static analyser.

  python -m jtsa check <ID> [--thorough] [--root /repo]
  python -m jtsa all [--thorough]
  python -m jtsa replay <path>
  python -m jtsa selfval [<ID> ...]

Exit 0: property held on everything analysed (KNOWN-FINDING lines allowed).
Exit 1: `VIOLATION property=<id> replay=<path>` printed for every unlisted violation.
Exit 2: ANALYSIS-ERROR (anchor vanished / floor not met / unknown shape / crash): no verdict.
"""
from __future__ import annotations

import json
import os
import sys
import time
import traceback

HERE = os.path.dirname(os.path.abspath(__file__))
VERIF = os.path.dirname(HERE)


def main(argv=None) -> int:
    argv = list(sys.argv[1:] if argv is None else argv)
    if not argv:
        print(__doc__)
        return 2
    cmd = argv.pop(0)
    root = "/repo"
    if "--root" in argv:
        i = argv.index("--root")
        root = argv[i + 1]
        del argv[i : i + 2]
    thorough = False
    if "--thorough" in argv:
        argv.remove("--thorough")
        thorough = True
    if os.environ.get("VERIF_TIER") == "thorough":
        thorough = True
    from .runner import run_property, replay, PROPS

    if cmd == "check":
        if not argv:
            print("usage: check <ID>")
            return 2
        return run_property(argv[0], root=root, thorough=thorough)
    if cmd == "all":
        worst = 0
        for p in PROPS:
            rc = run_property(p, root=root, thorough=thorough)
            worst = max(worst, rc)
        return worst
    if cmd == "replay":
        return replay(argv[0], root=root)
    if cmd == "selfval":
        from .selfval import main as sv_main

        return sv_main(argv, root=root)
    print(__doc__)
    return 2


if __name__ == "__main__":
    try:
        rc = main()
    except SystemExit:
        raise
    except BaseException as e:  # never let a traceback look like a violation
        traceback.print_exc()
        print(f"ANALYSIS-ERROR: analyser crashed: {type(e).__name__}: {e}")
        rc = 2
    sys.stdout.flush()
    sys.exit(rc)
