"""Whole-package call graph on resolved callees, with dispatch pseudo-edges.

* resolved internal calls (functions, methods via self/cls/super, class construction ->
  __init__ and the metaclass' __call__),
* reference edges: a function merely *named* (stored in a table, passed as an argument,
  returned) is over-approximated as callable from the referencing function,
* dispatch pseudo-edges: a CALL-OUT (call through a parameter / variable / unknown
  attribute) or an `isinstance` may re-enter every `__instancecheck__` of the package.
"""
from __future__ import annotations

import ast
from typing import Optional

from .model import ClassInfo, FuncInfo, Model, walk_scope, walk_with_lambdas


_TRANSPARENT_DECORATORS = {"wraps", "staticmethod", "classmethod", "property", "lru_cache", "cache", "cached_property", "overload", "abstractmethod",
                           "dataclass", "contextmanager", "no_type_check", "final", "setter", "getter", "deleter"}


def _opaque_decorators(fn: FuncInfo) -> bool:
    for d in fn.decorators:
        t = d.func if isinstance(d, ast.Call) else d
        last = t.id if isinstance(t, ast.Name) else t.attr if isinstance(t, ast.Attribute) else None
        if last not in _TRANSPARENT_DECORATORS:
            return True
    return False


class CallGraph:
    def __init__(self, model: Model, include_typeguard=True):
        self.m = model
        self.edges: dict = {}  # qualname -> set(qualname)
        self.ref_edges: dict = {}
        self.callouts: dict = {}  # qualname -> list of call nodes that are call-outs
        self.sites: dict = {}  # callee qualname -> list of (caller FuncInfo, call node)
        self.escapes: set = set()  # functions referenced as values
        self.instancechecks = [
            f
            for c in model.classes.values()
            for n, f in c.methods.items()
            if n in ("__instancecheck__", "__subclasscheck__")
        ]
        for f in model.functions.values():
            self._scan(f)

    def _scan(self, f: FuncInfo):
        q = f.qualname
        e = self.edges.setdefault(q, set())
        r = self.ref_edges.setdefault(q, set())
        co = self.callouts.setdefault(q, [])
        call_funcs = set()
        for n in walk_with_lambdas(f.node):
            if isinstance(n, ast.Call):
                call_funcs.add(id(n.func))
                t = self.m.resolve_call(f, n)
                if t.kind == "func":
                    e.add(t.target.qualname)
                    self.sites.setdefault(t.target.qualname, []).append((f, n))
                    if _opaque_decorators(t.target):
                        # what runs is the decorator's wrapper, not just the body (`@typechecked def accepts(x: T): pass`
                        # checks x against T, i.e. dispatches to __instancecheck__): a call-out as well
                        co.append(n)
                elif t.kind == "class":
                    c = t.target
                    for nm in ("__init__", "__new__"):
                        mth = self.m.lookup_method(c, nm)
                        if mth is not None:
                            e.add(mth.qualname)
                            self.sites.setdefault(mth.qualname, []).append((f, n))
                    mc = self.m.metaclass_of(c)
                    if mc is not None:
                        mth = self.m.lookup_method(mc, "__call__")
                        if mth is not None:
                            e.add(mth.qualname)
                elif t.kind in ("callout", "method", "unknown"):
                    co.append(n)
                elif t.kind == "ext":
                    if t.target in ("builtins.isinstance", "builtins.issubclass"):
                        co.append(n)
                    elif not _pure_external(t.target):
                        co.append(n)
            elif isinstance(n, ast.Subscript) and isinstance(n.ctx, ast.Load):
                # X[...] on an internal class with a metaclass __getitem__
                st = self.m.resolve_expr_static(f, n.value)
                if isinstance(st, ClassInfo):
                    mc = self.m.metaclass_of(st)
                    if mc is not None:
                        g = self.m.lookup_method(mc, "__getitem__")
                        if g is not None:
                            e.add(g.qualname)
                            self.sites.setdefault(g.qualname, []).append((f, n))
        # references
        for n in walk_with_lambdas(f.node):
            if isinstance(n, (ast.Name, ast.Attribute)) and isinstance(getattr(n, "ctx", None), ast.Load):
                if id(n) in call_funcs:
                    continue
                st = self.m.resolve_expr_static(f, n) if isinstance(n, ast.Name) else None
                if isinstance(n, ast.Attribute):
                    st = self.m.resolve_expr_static(f, n)
                if isinstance(st, FuncInfo):
                    r.add(st.qualname)
                    self.escapes.add(st.qualname)
        # nested defs decorated: decorated closures escape through their decorator, and the
        # decorator itself is called here
        for nf in list(f.nested.values()) + list(f.nested_classes.values()):
            decs = nf.decorators if isinstance(nf, FuncInfo) else list(nf.node.decorator_list)
            if decs and isinstance(nf, FuncInfo):
                self.escapes.add(nf.qualname)
            for d in decs:
                t = d.func if isinstance(d, ast.Call) else d
                st = self.m.resolve_expr_static(f, t)
                if isinstance(st, FuncInfo):
                    e.add(st.qualname)
                elif st is None:
                    co.append(d)

    # ----------------------------------------------------------------- queries
    def reachable(self, roots, follow_refs=True, dispatch=True, stop=None) -> dict:
        """qualname -> predecessor qualname (None for roots); BFS."""
        pred = {}
        work = []
        for r in roots:
            q = r.qualname if isinstance(r, FuncInfo) else r
            if q not in pred:
                pred[q] = None
                work.append(q)
        ic = [f.qualname for f in self.instancechecks]
        while work:
            q = work.pop(0)
            if stop and stop(q):
                continue
            nxt = set(self.edges.get(q, ()))
            if follow_refs:
                nxt |= self.ref_edges.get(q, set())
            if dispatch and self.callouts.get(q):
                nxt |= set(ic)
            f = self.m.functions.get(q)
            if f is not None:
                # nested functions defined here may be invoked by whoever receives them
                for nf in f.nested.values():
                    if follow_refs:
                        nxt.add(nf.qualname)
            for t in sorted(nxt):
                if t not in pred:
                    pred[t] = q
                    work.append(t)
        return pred

    def chain(self, pred: dict, q: str) -> list:
        out = []
        while q is not None:
            out.append(q)
            q = pred.get(q)
        out.reverse()
        return out

    def callers(self, f: FuncInfo) -> list:
        return self.sites.get(f.qualname, [])


_PURE_PREFIXES = (
    "builtins.len", "builtins.hasattr", "builtins.getattr", "builtins.type", "builtins.str",
    "builtins.repr", "builtins.tuple", "builtins.list", "builtins.dict", "builtins.set",
    "builtins.frozenset", "builtins.enumerate", "builtins.zip", "builtins.range",
    "builtins.int", "builtins.bool", "builtins.float", "builtins.any", "builtins.all",
    "builtins.id", "builtins.sorted", "builtins.max", "builtins.min", "builtins.print",
    "builtins.super", "builtins.object", "builtins.callable", "builtins.iter", "builtins.next",
    "inspect.", "itertools.", "functools.", "typing.", "ast.", "hashlib.", "re.", "sys.",
    "warnings.", "weakref.", "dataclasses.", "os.", "threading.", "importlib.", "copyreg.",
    "enum.", "collections.", "types.",
)


def _pure_external(dotted: str) -> bool:
    """External callables that cannot call back into user / jaxtyping check code (a
    conservative list: str()/repr()/print() may call user __repr__, which is user code
    but not a jaxtyping check entry by itself)."""
    return any(dotted == p or dotted.startswith(p) for p in _PURE_PREFIXES)


def _bind_args(model, caller, call, callee: FuncInfo) -> dict:
    """parameter name -> argument expression at a resolved call site."""
    params = list(callee.params)
    t = model.resolve_call(caller, call) if isinstance(call, ast.Call) else None
    if callee.cls is not None and params and (callee.name in ("__init__", "__new__") or (t is not None and t.recv is not None) or (t is not None and t.kind == "class")):
        params = params[1:]
    out = {}
    if not isinstance(call, ast.Call):
        return out
    for i, a in enumerate(call.args):
        if isinstance(a, ast.Starred):
            break
        if i < len(params):
            out[params[i]] = a
    for k in call.keywords:
        if k.arg:
            out[k.arg] = k.value
    return out


def trace_value(cg: "CallGraph", fn: FuncInfo, expr, depth: int = 0, _seen=None) -> list:
    """Terminal source expressions [(FuncInfo, expr)] of a value: follows parameters to the
    arguments at resolved call sites, `self.X` to what __init__ (or another method) stores
    there, and single-assignment locals."""
    m = cg.m
    _seen = _seen if _seen is not None else set()
    key = (fn.qualname, ast.dump(expr) if isinstance(expr, ast.AST) else str(expr))
    if depth > 6 or key in _seen:
        return [(fn, expr)]
    _seen.add(key)
    if isinstance(expr, ast.Name):
        name = expr.id
        is_recv = fn.cls is not None and fn.params and fn.params[0] == name
        if name in fn.params and not is_recv:
            sites = cg.callers(fn)
            outs = []
            for caller, call in sites:
                if not isinstance(caller, FuncInfo):
                    continue
                b = _bind_args(m, caller, call, fn)
                if name in b:
                    outs += trace_value(cg, caller, b[name], depth + 1, _seen)
            return outs or [(fn, expr)]
        defs = []
        for n in walk_scope(fn.node):
            if isinstance(n, ast.Assign):
                for t in n.targets:
                    if isinstance(t, ast.Name) and t.id == name:
                        defs.append(n.value)
        if len(defs) == 1:
            return trace_value(cg, fn, defs[0], depth + 1, _seen)
        return [(fn, expr)]
    if isinstance(expr, ast.Attribute) and isinstance(expr.value, ast.Name) and fn.cls is not None and fn.params and expr.value.id == fn.params[0]:
        outs = []
        for meth in fn.cls.methods.values():
            recv = meth.params[0] if meth.params else None
            for n in walk_scope(meth.node):
                if isinstance(n, ast.Assign):
                    for t in n.targets:
                        if isinstance(t, ast.Attribute) and isinstance(t.value, ast.Name) and t.value.id == recv and t.attr == expr.attr:
                            outs += trace_value(cg, meth, n.value, depth + 1, _seen)
        return outs or [(fn, expr)]
    return [(fn, expr)]
