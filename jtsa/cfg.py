"""Statement-level control-flow graph with two exception classes.

Hand-built for exactly the statement kinds the repository uses.  Exceptional edges are
labelled with a *kind*: 'e' (some Exception subclass), 'b' (BaseException-only:
KeyboardInterrupt/SystemExit/GeneratorExit) or a concrete class name for an explicit
`raise C(...)`.  `finally` bodies (and `with` exits) are duplicated per continuation, so
the state after a `finally` is exact; handler bodies are duplicated per caught kind so a
bare `raise` re-raises the right class.

Three exits: normal, exit_e, exit_b.  Unknown statement kinds raise AnalysisError.
"""
from __future__ import annotations

import ast
from typing import Callable, Optional

from .core import AnalysisError, norm, short

# ----------------------------------------------------------------- exceptions
_BUILTIN_EXC_PARENT = {
    "BaseException": None,
    "Exception": "BaseException",
    "KeyboardInterrupt": "BaseException",
    "SystemExit": "BaseException",
    "GeneratorExit": "BaseException",
    "ArithmeticError": "Exception",
    "ZeroDivisionError": "ArithmeticError",
    "OverflowError": "ArithmeticError",
    "AssertionError": "Exception",
    "AttributeError": "Exception",
    "BufferError": "Exception",
    "EOFError": "Exception",
    "ImportError": "Exception",
    "ModuleNotFoundError": "ImportError",
    "LookupError": "Exception",
    "IndexError": "LookupError",
    "KeyError": "LookupError",
    "MemoryError": "Exception",
    "NameError": "Exception",
    "UnboundLocalError": "NameError",
    "OSError": "Exception",
    "FileNotFoundError": "OSError",
    "ReferenceError": "Exception",
    "RuntimeError": "Exception",
    "NotImplementedError": "RuntimeError",
    "RecursionError": "RuntimeError",
    "StopIteration": "Exception",
    "StopAsyncIteration": "Exception",
    "SyntaxError": "Exception",
    "SystemError": "Exception",
    "TypeError": "Exception",
    "ValueError": "Exception",
    "UnicodeError": "ValueError",
    "Warning": "Exception",
    "UserWarning": "Warning",
    "DeprecationWarning": "Warning",
}


class ExcHierarchy:
    def __init__(self, model=None):
        self.parent = dict(_BUILTIN_EXC_PARENT)
        if model is not None:
            # package-defined exception classes (single inheritance is enough here)
            changed = True
            while changed:
                changed = False
                for c in model.classes.values():
                    if c.name in self.parent or not c.bases:
                        continue
                    b = c.bases[0]
                    bn = b.id if isinstance(b, ast.Name) else (b.attr if isinstance(b, ast.Attribute) else None)
                    if bn in self.parent:
                        self.parent[c.name] = bn
                        changed = True

    def known(self, name: str) -> bool:
        return name in self.parent

    def is_sub(self, a: str, b: str) -> bool:
        while a is not None:
            if a == b:
                return True
            a = self.parent.get(a)
        return False

    def is_b_only(self, name: str) -> bool:
        return self.known(name) and not self.is_sub(name, "Exception")

    def exit_class(self, kind: str) -> str:
        """'e' or 'b' for any kind."""
        if kind in ("e", "b"):
            return kind
        if self.known(kind):
            return "e" if self.is_sub(kind, "Exception") else "b"
        return "e"

    def handler_names(self, t) -> Optional[list]:
        """Class names of a handler type expression; None = bare except."""
        if t is None:
            return None
        if isinstance(t, ast.Tuple):
            out = []
            for e in t.elts:
                out += self.handler_names(e) or ["BaseException"]
            return out
        if isinstance(t, ast.Name):
            return [t.id]
        if isinstance(t, ast.Attribute):
            return [t.attr]
        return ["?"]

    def catches(self, handler_type, kind: str) -> str:
        """'all' | 'may' | 'no' : does `except handler_type` catch exceptions of kind."""
        names = self.handler_names(handler_type)
        if names is None:
            return "all"
        res = "no"
        for n in names:
            r = self._catches1(n, kind)
            if r == "all":
                return "all"
            if r == "may":
                res = "may"
        return res

    def _catches1(self, n: str, kind: str) -> str:
        if n == "BaseException":
            return "all"
        if kind == "e":
            if n == "Exception":
                return "all"
            if self.known(n):
                return "no" if self.is_b_only(n) else "may"
            return "may"
        if kind == "b":
            if n == "Exception":
                return "no"
            if self.known(n):
                return "may" if self.is_b_only(n) else "no"
            return "no"  # unknown classes are assumed to be Exception subclasses
        # concrete class
        if self.known(kind):
            if self.known(n):
                return "all" if self.is_sub(kind, n) else "no"
            return "may"
        # unknown concrete class: assumed Exception subclass
        if n == "Exception":
            return "all"
        if n == kind:
            return "all"
        return "may"


# ------------------------------------------------------------------ may_raise
_SAFE_CALLS = {"isinstance", "hasattr_static"}


class RaiseOracle:
    """Decides whether evaluating an expression / statement may raise."""

    def __init__(self, model=None, fn=None):
        self.model = model
        self.fn = fn

    def static_chain(self, e) -> bool:
        """Attribute chain rooted in a module alias / module-level name of the package
        (e.g. inspect.Signature.empty, config.jaxtyping_disable): treated as not raising."""
        from .model import root_name

        if self.model is None or self.fn is None:
            return False
        x = e
        while isinstance(x, ast.Attribute):
            x = x.value
        if not isinstance(x, ast.Name):
            return False
        b = self.model.resolve_name(self.fn, x.id)
        if b.kind in ("param", "freevar"):
            # own attributes of the receiver (self / cls) of the enclosing method: assumed
            # present (trusted base: instances and annotation classes carry the attributes
            # their constructors give them)
            s = self.fn
            while s is not None and getattr(s, "cls", None) is None and hasattr(s, "parent"):
                s = s.parent
            if s is not None and getattr(s, "cls", None) is not None and getattr(s, "params", None):
                return x.id == s.params[0]
            return False
        return b.kind in ("ext", "module", "modvar", "class", "func", "builtin")

    def expr(self, e) -> bool:
        if e is None:
            return False
        for n in self._walk(e):
            if isinstance(n, (ast.Call, ast.BinOp, ast.Await, ast.Yield, ast.YieldFrom,
                              ast.FormattedValue, ast.ListComp, ast.SetComp, ast.DictComp,
                              ast.GeneratorExp, ast.Starred)):
                return True
            if isinstance(n, ast.Subscript):
                return True
            if isinstance(n, ast.Attribute):
                if not self.static_chain(n):
                    return True
            if isinstance(n, ast.UnaryOp) and not isinstance(n.op, ast.Not):
                if not isinstance(n.operand, ast.Constant):
                    return True
            if isinstance(n, ast.Compare):
                if any(not isinstance(o, (ast.Is, ast.IsNot)) for o in n.ops):
                    # `name == <constant>` / `name != <constant>`: compared through the
                    # constant's builtin type; treated as not raising (bool(x) of a plain
                    # name is treated the same way)
                    simple = (
                        len(n.ops) == 1
                        and isinstance(n.ops[0], (ast.Eq, ast.NotEq))
                        and isinstance(n.left, (ast.Name, ast.Constant))
                        and isinstance(n.comparators[0], (ast.Constant,))
                    )
                    if not simple:
                        return True
        return False

    def _walk(self, e):
        stack = [e]
        while stack:
            n = stack.pop()
            yield n
            if isinstance(n, ast.Lambda):
                continue  # creating a lambda does not run it
            if isinstance(n, ast.Attribute) and self.static_chain(n):
                continue
            stack.extend(ast.iter_child_nodes(n))

    def stmt(self, s) -> bool:
        if isinstance(s, (ast.Pass, ast.Break, ast.Continue, ast.Global, ast.Nonlocal)):
            return False
        if isinstance(s, ast.Return):
            return self.expr(s.value)
        if isinstance(s, ast.Expr):
            return self.expr(s.value)
        if isinstance(s, ast.Assign):
            if self.expr(s.value):
                return True
            for t in s.targets:
                if not isinstance(t, ast.Name):
                    return True  # unpacking / attribute / subscript stores
            return False
        if isinstance(s, ast.AnnAssign):
            return self.expr(s.value) or not isinstance(s.target, ast.Name)
        if isinstance(s, ast.AugAssign):
            return True
        if isinstance(s, ast.Delete):
            return any(not isinstance(t, ast.Name) for t in s.targets)
        if isinstance(s, (ast.Import, ast.ImportFrom, ast.Assert, ast.Raise)):
            return True
        if isinstance(s, (ast.FunctionDef, ast.AsyncFunctionDef)):
            a = s.args
            return bool(s.decorator_list) and any(self.expr(d) for d in s.decorator_list) or any(
                self.expr(d) for d in list(a.defaults) + [d for d in a.kw_defaults if d is not None]
            ) or any(
                self.expr(x.annotation) for x in a.posonlyargs + a.args + a.kwonlyargs if x.annotation is not None
            )
        if isinstance(s, ast.ClassDef):
            return True
        return True


# ----------------------------------------------------------------------- graph
class Node:
    __slots__ = ("id", "kind", "ast", "label", "succ", "pred", "info")

    def __init__(self, id, kind, astnode=None, label="", info=None):
        self.id = id
        self.kind = kind
        self.ast = astnode
        self.label = label
        self.succ: list = []  # (edge_kind, Node)
        self.pred: list = []
        self.info = info or {}

    @property
    def lineno(self):
        return getattr(self.ast, "lineno", 0)

    def text(self) -> str:
        if self.kind in ("entry", "exit", "exit_e", "exit_b", "falloff"):
            return f"<{self.kind}>"
        if self.kind == "test":
            return f"if {short(self.ast, 70)}"
        if self.kind == "while":
            return f"while {short(self.ast, 70)}"
        if self.kind == "for":
            return f"for {short(self.ast.target, 30)} in {short(self.ast.iter, 40)}"
        if self.kind == "handler":
            return f"except {short(self.ast.type, 40) if self.ast.type is not None else ''}[{self.info.get('caught')}]"
        if self.kind == "dispatch":
            return f"<dispatch {self.info.get('kind')}>"
        if self.kind == "unwind":
            return f"<unwind {self.info.get('kind')}>"
        if self.kind == "with_enter":
            return f"with {short(self.ast, 60)}"
        if self.kind == "with_exit":
            return f"<with-exit {self.info.get('cont')}>"
        if self.kind == "def":
            return f"def {self.ast.name}"
        return short(self.ast, 80)

    def __repr__(self):
        return f"N{self.id}:{self.kind}:{self.label or self.text()}"


class Ctx:
    __slots__ = ("next", "exc", "ret", "brk", "cont", "reraise")

    def __init__(self, next, exc, ret, brk=None, cont=None, reraise=None):
        self.next = next
        self.exc = exc  # kind -> Node
        self.ret = ret
        self.brk = brk
        self.cont = cont
        self.reraise = reraise  # kind caught by the innermost handler

    def replace(self, **kw):
        c = Ctx(self.next, self.exc, self.ret, self.brk, self.cont, self.reraise)
        for k, v in kw.items():
            setattr(c, k, v)
        return c


class CFG:
    def __init__(self, fn, model=None, noreturn: Optional[Callable] = None, hierarchy=None):
        """fn: FuncInfo (or any object with .node/.body).  noreturn(call)->bool tells
        whether a call never returns normally."""
        self.fn = fn
        self.model = model
        self.nodes: list[Node] = []
        self.h = hierarchy or ExcHierarchy(model)
        self.oracle = RaiseOracle(model, fn)
        self.noreturn = noreturn or (lambda call: False)
        self.entry = self._new("entry")
        self.exit = self._new("exit")
        self.exit_e = self._new("exit_e")
        self.exit_b = self._new("exit_b")
        self.has_yield = any(
            isinstance(n, (ast.Yield, ast.YieldFrom)) for n in _walk_own(fn.node)
        )
        self.is_async = isinstance(fn.node, ast.AsyncFunctionDef)

        def top_exc(kind):
            return self.exit_e if self.h.exit_class(kind) == "e" else self.exit_b

        # falling off the end of the body goes through a distinct pseudo node, so rules can
        # tell `return x` from an implicit `return None`
        self.falloff = self._new("falloff")
        self._edge(self.falloff, "fall", self.exit)
        ctx = Ctx(self.falloff, top_exc, self.exit)
        body = fn.node.body if isinstance(fn.node.body, list) else [ast.Return(value=fn.node.body)]
        first = self._seq(body, ctx)
        self._edge(self.entry, "n", first)
        self._finish()

    # -- construction helpers
    def _new(self, kind, astnode=None, label="", info=None) -> Node:
        n = Node(len(self.nodes), kind, astnode, label, info)
        self.nodes.append(n)
        return n

    def _edge(self, a: Node, kind: str, b: Node):
        if b is None:
            raise AnalysisError(f"CFG: dangling edge {kind} from {a!r} in {self.fn.qualname}")
        if (kind, b) not in a.succ:
            a.succ.append((kind, b))

    def _finish(self):
        # prune unreachable nodes, fill preds
        reach = set()
        stack = [self.entry]
        while stack:
            n = stack.pop()
            if n.id in reach:
                continue
            reach.add(n.id)
            for _, m in n.succ:
                stack.append(m)
        self.reachable = reach
        for n in self.nodes:
            if n.id in reach:
                for k, m in n.succ:
                    m.pred.append((k, n))

    def _exc_edges(self, node: Node, ctx: Ctx, raises: bool):
        if raises:
            self._edge(node, "e", ctx.exc("e"))
            self._edge(node, "b", ctx.exc("b"))

    # -- sequences
    def _seq(self, stmts, ctx: Ctx) -> Node:
        nxt = ctx.next
        for s in reversed(stmts):
            nxt = self._stmt(s, ctx.replace(next=nxt))
        return nxt

    def _call_never_returns(self, s) -> bool:
        if isinstance(s, ast.Expr) and isinstance(s.value, ast.Call):
            return self.noreturn(s.value)
        if isinstance(s, ast.Assign) and isinstance(s.value, ast.Call):
            return self.noreturn(s.value)
        return False

    def _stmt(self, s, ctx: Ctx) -> Node:
        if isinstance(s, (ast.Expr, ast.Assign, ast.AnnAssign, ast.AugAssign, ast.Delete,
                          ast.Import, ast.ImportFrom, ast.Pass, ast.Global, ast.Nonlocal)):
            n = self._new("stmt", s)
            if not self._call_never_returns(s):
                self._edge(n, "n", ctx.next)
            self._exc_edges(n, ctx, self.oracle.stmt(s))
            return n
        if isinstance(s, (ast.FunctionDef, ast.AsyncFunctionDef, ast.ClassDef)):
            n = self._new("def", s)
            self._edge(n, "n", ctx.next)
            self._exc_edges(n, ctx, self.oracle.stmt(s))
            return n
        if isinstance(s, ast.Return):
            n = self._new("return", s)
            self._edge(n, "ret", ctx.ret)
            self._exc_edges(n, ctx, self.oracle.expr(s.value))
            return n
        if isinstance(s, ast.Break):
            n = self._new("stmt", s)
            if ctx.brk is None:
                raise AnalysisError("break outside loop")
            self._edge(n, "brk", ctx.brk)
            return n
        if isinstance(s, ast.Continue):
            n = self._new("stmt", s)
            if ctx.cont is None:
                raise AnalysisError("continue outside loop")
            self._edge(n, "cont", ctx.cont)
            return n
        if isinstance(s, ast.Raise):
            return self._raise(s, ctx)
        if isinstance(s, ast.Assert):
            n = self._new("assert", s)
            always_fails = isinstance(s.test, ast.Constant) and not s.test.value
            if not always_fails:
                self._edge(n, "n", ctx.next)
            self._edge(n, "AssertionError", ctx.exc("AssertionError"))
            self._exc_edges(n, ctx, self.oracle.expr(s.test) or self.oracle.expr(s.msg))
            return n
        if isinstance(s, ast.If):
            return self._if(s, ctx)
        if isinstance(s, ast.While):
            return self._while(s, ctx)
        if isinstance(s, (ast.For, ast.AsyncFor)):
            return self._for(s, ctx)
        if isinstance(s, ast.Try):
            return self._try(s, ctx)
        if isinstance(s, (ast.With, ast.AsyncWith)):
            return self._with(s, s.items, ctx)
        raise AnalysisError(
            f"CFG: unsupported statement kind {type(s).__name__} in {self.fn.qualname}"
        )

    def _raise(self, s: ast.Raise, ctx: Ctx) -> Node:
        n = self._new("raise", s)
        kinds = []
        if s.exc is None:
            kinds = [ctx.reraise] if ctx.reraise else ["e", "b"]
        else:
            x = s.exc
            cname = None
            if isinstance(x, ast.Call):
                f = x.func
                cname = f.id if isinstance(f, ast.Name) else (f.attr if isinstance(f, ast.Attribute) else None)
                args_raise = any(self.oracle.expr(a) for a in x.args) or any(
                    self.oracle.expr(k.value) for k in x.keywords
                )
            elif isinstance(x, ast.Name):
                cname = x.id
                args_raise = False
            else:
                args_raise = True
            if cname is not None and not (self.h.known(cname) or cname[:1].isupper()) and self.model is not None and isinstance(x, ast.Call):
                # `raise make_error(..)`: an error factory of the package -- the class of what it returns
                try:
                    from .rules._exc import raised_class

                    rc_ = raised_class(self.model, self.fn, x)
                except Exception:
                    rc_ = None
                if rc_ is not None and (self.h.known(rc_) or rc_[:1].isupper()):
                    cname = rc_
            if cname is not None and (self.h.known(cname) or (cname[:1].isupper())):
                kinds = [cname]
            elif cname is not None and ctx.reraise and self._is_handler_var(cname):
                kinds = [ctx.reraise]
            else:
                kinds = ["e", "b"]
            if args_raise or self.oracle.expr(s.cause):
                self._exc_edges(n, ctx, True)
        n.info["kinds"] = kinds
        for k in kinds:
            self._edge(n, k, ctx.exc(k))
        return n

    def _is_handler_var(self, name) -> bool:
        for h in ast.walk(self.fn.node):
            if isinstance(h, ast.ExceptHandler) and h.name == name:
                return True
        return False

    def _const_truth(self, e):
        if isinstance(e, ast.Constant):
            return bool(e.value)
        return None

    def _if(self, s: ast.If, ctx: Ctx) -> Node:
        n = self._new("test", s.test, info={"stmt": s})
        tv = self._const_truth(s.test)
        if tv is not False:
            self._edge(n, "t", self._seq(s.body, ctx))
        if tv is not True:
            self._edge(n, "f", self._seq(s.orelse, ctx) if s.orelse else ctx.next)
        self._exc_edges(n, ctx, self.oracle.expr(s.test))
        return n

    def _while(self, s: ast.While, ctx: Ctx) -> Node:
        n = self._new("while", s.test, info={"stmt": s})
        tv = self._const_truth(s.test)
        after = self._seq(s.orelse, ctx) if s.orelse else ctx.next
        body = self._seq(s.body, ctx.replace(next=n, brk=ctx.next, cont=n))
        if tv is not False:
            self._edge(n, "t", body)
        if tv is not True:
            self._edge(n, "f", after)
        self._exc_edges(n, ctx, self.oracle.expr(s.test))
        return n

    def _for(self, s, ctx: Ctx) -> Node:
        init = self._new("stmt", ast.Expr(value=s.iter), label=f"iter({short(s.iter, 40)})")
        ast.copy_location(init.ast, s)
        hdr = self._new("for", s)
        self._edge(init, "n", hdr)
        self._exc_edges(init, ctx, True)
        after = self._seq(s.orelse, ctx) if s.orelse else ctx.next
        body = self._seq(s.body, ctx.replace(next=hdr, brk=ctx.next, cont=hdr))
        self._edge(hdr, "loop", body)
        self._edge(hdr, "done", after)
        self._exc_edges(hdr, ctx, True)  # next() on an arbitrary iterator
        return init

    # -- try / finally
    def _finally_ctx(self, finalbody_builder, ctx: Ctx, what="finally") -> Ctx:
        """Context whose every continuation first runs a copy of the finally body."""
        cache: dict = {}

        def copy(contkey, target_fn, kind=None):
            if contkey in cache:
                return cache[contkey]
            if kind is not None:
                uw = self._new("unwind", None, info={"kind": kind})
                self._edge(uw, kind, target_fn())
                tgt = uw
            else:
                tgt = target_fn()
            entry = finalbody_builder(ctx.replace(next=tgt), contkey)
            cache[contkey] = entry
            return entry

        def exc(kind):
            return copy(("exc", kind), lambda: ctx.exc(kind), kind)

        class Lazy:
            pass

        c = Ctx(None, exc, None, None, None, ctx.reraise)
        # continuation nodes are needed as Nodes; create eagerly only where defined
        c.next = copy(("next",), lambda: ctx.next)
        c.ret = copy(("ret",), lambda: ctx.ret)
        if ctx.brk is not None:
            c.brk = copy(("brk",), lambda: ctx.brk)
        if ctx.cont is not None:
            c.cont = copy(("cont",), lambda: ctx.cont)
        return c

    def _try(self, s: ast.Try, ctx: Ctx) -> Node:
        if s.finalbody:
            def build_final(c, contkey):
                first = self._seq(s.finalbody, c)
                marker = self._new("finally", s, info={"cont": contkey})
                self._edge(marker, "n", first)
                return marker

            kf = self._finally_ctx(build_final, ctx)
        else:
            kf = ctx
        if not s.handlers:
            body_ctx = kf
            if s.orelse:
                body_ctx = kf.replace(next=self._seq(s.orelse, kf))
            return self._seq(s.body, body_ctx)

        else_entry = self._seq(s.orelse, kf) if s.orelse else kf.next
        dispatch_cache: dict = {}

        def dispatch(kind):
            if kind in dispatch_cache:
                return dispatch_cache[kind]
            d = self._new("dispatch", s, info={"kind": kind})
            dispatch_cache[kind] = d
            caught_all = False
            for h in s.handlers:
                r = self.h.catches(h.type, kind)
                if r == "no":
                    continue
                hn = self._new("handler", h, info={"caught": kind, "match": r})
                body = self._seq(h.body, kf.replace(reraise=kind))
                self._edge(hn, "n", body)
                self._edge(d, "caught", hn)
                if r == "all":
                    caught_all = True
                    break
            if not caught_all:
                self._edge(d, kind, kf.exc(kind))
            return d

        body_ctx = kf.replace(next=else_entry, exc=dispatch)
        return self._seq(s.body, body_ctx)

    def _with(self, s, items, ctx: Ctx) -> Node:
        item = items[0]

        def build_exit(c, contkey):
            n = self._new("with_exit", item.context_expr, info={"cont": contkey, "stmt": s})
            self._edge(n, "n", c.next)
            # __exit__ itself may raise
            self._exc_edges(n, ctx, True)
            return n

        kf = self._finally_ctx(build_exit, ctx)
        if len(items) > 1:
            body = self._with(s, items[1:], kf)
        else:
            body = self._seq(s.body, kf)
        enter = self._new("with_enter", item.context_expr, info={"stmt": s, "item": item})
        self._edge(enter, "n", body)
        self._exc_edges(enter, ctx, True)
        return enter

    # ------------------------------------------------------------- queries
    def live_nodes(self):
        return [n for n in self.nodes if n.id in self.reachable]

    def stats(self):
        live = self.live_nodes()
        return {"nodes": len(live), "edges": sum(len(n.succ) for n in live)}

    def reach_from(self, start: Node, avoid=None) -> set:
        seen = set()
        stack = [start]
        while stack:
            n = stack.pop()
            if n.id in seen or (avoid and avoid(n)):
                continue
            seen.add(n.id)
            for _, m in n.succ:
                stack.append(m)
        return seen

    def dominators(self, edge_filter=None) -> dict:
        """node id -> set of dominator node ids (over reachable nodes)."""
        live = self.live_nodes()
        ids = [n.id for n in live]
        allset = set(ids)
        dom = {i: set(allset) for i in ids}
        dom[self.entry.id] = {self.entry.id}
        changed = True
        order = ids
        while changed:
            changed = False
            for n in live:
                if n is self.entry:
                    continue
                preds = [p for k, p in n.pred if p.id in allset and (edge_filter is None or edge_filter(k))]
                if not preds:
                    new = {n.id}
                else:
                    new = set.intersection(*(dom[p.id] for p in preds)) | {n.id}
                if new != dom[n.id]:
                    dom[n.id] = new
                    changed = True
        return dom

    def nodes_of_stmt(self, stmt) -> list:
        return [n for n in self.live_nodes() if n.ast is stmt]

    def find_nodes(self, pred) -> list:
        return [n for n in self.live_nodes() if pred(n)]


def _walk_own(fnode):
    from .model import walk_scope

    return walk_scope(fnode)


# ------------------------------------------------------------ product solver
class Flow:
    """Forward exploration of the product (CFG node x abstract state).

    transfer(node, state, edge_kind, succ) -> iterable of successor states (empty =
    edge infeasible for this state).  Records a predecessor for every (node,state) so a
    witness path can be printed for a violation.
    """

    def __init__(self, cfg: CFG, init_state, transfer, limit=200000):
        self.cfg = cfg
        self.transfer = transfer
        self.pred: dict = {}
        self.at: dict = {}  # node id -> set of states on entry to node
        start = (cfg.entry.id, init_state)
        self.pred[start] = None
        work = [start]
        self.at.setdefault(cfg.entry.id, set()).add(init_state)
        steps = 0
        while work:
            nid, st = work.pop()
            node = cfg.nodes[nid]
            for kind, succ in node.succ:
                for st2 in transfer(node, st, kind, succ):
                    key = (succ.id, st2)
                    if key in self.pred:
                        continue
                    self.pred[key] = (nid, st, kind)
                    self.at.setdefault(succ.id, set()).add(st2)
                    work.append(key)
                    steps += 1
                    if steps > limit:
                        raise AnalysisError(
                            f"product exploration exceeded {limit} states in {cfg.fn.qualname}"
                        )
        self.steps = steps

    def states_at(self, node: Node) -> set:
        return self.at.get(node.id, set())

    def witness(self, node: Node, state) -> list:
        """Path (list of strings) from entry to (node,state)."""
        out = []
        key = (node.id, state)
        guard = 0
        while key is not None and guard < 10000:
            guard += 1
            nid, st = key
            p = self.pred.get(key)
            n = self.cfg.nodes[nid]
            if n.kind not in ("dispatch", "finally"):
                edge = f" --{p[2]}-->" if p else ""
                out.append((n, st, p[2] if p else None))
            key = (p[0], p[1]) if p else None
        out.reverse()
        res = []
        for n, st, k in out:
            t = n.text()
            ln = f"L{n.lineno}:" if n.lineno else ""
            res.append(f"{'['+k+'] ' if k and k not in ('n',) else ''}{ln}{t}")
        # compress
        if len(res) > 24:
            res = res[:10] + [f"... ({len(res) - 20} more) ..."] + res[-10:]
        return res
