"""Self-validation of the checker: seeded defect variants and benign twins.

Every seed is an edit of the *current* /repo sources applied **in memory** (nothing is
written under /repo, /verif or /tmp); the variant must still compile and the rule must
report it (naming the expected rule).  Benign twins are behaviour-preserving rewrites that
must stay silent.  A seed whose anchor text no longer exists in the current tree is
skipped (and counted) -- the tree under analysis may legitimately differ from the
pinned one.
"""
from __future__ import annotations

import os
import sys
import time
from concurrent.futures import ProcessPoolExecutor

from .core import AnalysisError
from .seeds import SEEDS, TWINS


def _apply(root, file, old, new):
    p = os.path.join(root, file)
    if not os.path.exists(p):
        return None
    src = open(p, encoding="utf-8").read()
    if old not in src:
        return None
    out = src.replace(old, new, 1)
    if file.endswith(".py"):
        try:
            compile(out, file, "exec")
        except SyntaxError as e:
            return ("syntax", str(e))
    return out


def _apply_diff(root, diff):
    """{file: patched text} for a unified diff kept under /verif (a refactoring of the benign corpus used
    as the base of a seed): applied with `git apply` to a throw-away copy of the sources."""
    import shutil
    import subprocess
    import tempfile

    here = os.path.dirname(os.path.dirname(os.path.abspath(__file__)))
    d = os.path.join(here, diff)
    tmp = tempfile.mkdtemp(prefix="jtsa_sd_")
    try:
        shutil.copytree(os.path.join(root, "jaxtyping"), os.path.join(tmp, "jaxtyping"), ignore=shutil.ignore_patterns("__pycache__"))
        r = subprocess.run(["git", "apply", "--unsafe-paths", "--directory", tmp, d], cwd=tmp, capture_output=True, text=True)
        if r.returncode != 0:
            return None
        out = {}
        for line in open(d, encoding="utf-8"):
            if line.startswith("+++ b/"):
                rel = line[6:].strip()
                out[rel] = open(os.path.join(tmp, rel), encoding="utf-8").read()
        return out
    finally:
        shutil.rmtree(tmp, ignore_errors=True)


def _baseline_keys(prop, root):
    from .runner import analyse

    try:
        ctx = analyse(prop, root, thorough=False)
        return {f.key for f in ctx.findings}, None
    except AnalysisError as e:
        return set(), str(e)


def run_seed(args):
    root, sid, prop, edits, expect, kind = args
    from .runner import analyse

    overrides = {}
    for file, old, new in edits:
        if file == "@diff":  # start from a refactoring of the benign corpus
            got = _apply_diff(root, old)
            if got is None:
                return (sid, prop, "skipped", f"{old} no longer applies to the current tree")
            overrides.update(got)
            continue
        base_src = overrides.get(file)
        if base_src is None:
            out = _apply(root, file, old, new)
        else:
            out = base_src.replace(old, new, 1) if old in base_src else None
        if out is None:
            return (sid, prop, "skipped", "anchor text not present in the current tree")
        if isinstance(out, tuple):
            return (sid, prop, "broken-seed", out[1])
        overrides[file] = out
    base, base_err = _baseline_keys(prop, root)
    try:
        ctx = analyse(prop, root, thorough=False, overrides=overrides)
    except AnalysisError as e:
        if kind == "seed":
            # an analysis error is not a pass: acceptable for a seed only if declared
            if expect == "ANALYSIS-ERROR":
                return (sid, prop, "detected", f"analysis error: {e}")
            return (sid, prop, "missed", f"ANALYSIS-ERROR instead of a finding: {e}")
        return (sid, prop, "false-alarm", f"twin produced ANALYSIS-ERROR: {e}")
    new = [f for f in ctx.findings if f.key not in base]
    if not new and getattr(ctx, "errors", None):
        # a sub-rule could not decide and nothing new was found (known findings are in ctx.findings): no verdict
        e = "; ".join(ctx.errors[:3])
        if kind == "seed":
            if expect == "ANALYSIS-ERROR":
                return (sid, prop, "detected", f"analysis error: {e}")
            return (sid, prop, "missed", f"ANALYSIS-ERROR instead of a finding: {e}")
        return (sid, prop, "false-alarm", f"twin produced ANALYSIS-ERROR: {e}")
    if kind == "seed":
        hits = [f for f in new if f.rule.startswith(expect)] if expect != "ANALYSIS-ERROR" else []
        if hits:
            return (sid, prop, "detected", f"{hits[0].rule} {hits[0].function}: {hits[0].message[:100]}")
        if new:
            return (sid, prop, "detected-other", f"expected {expect}, got {sorted({f.rule for f in new})}")
        return (sid, prop, "missed", "no new finding")
    else:
        if new:
            return (sid, prop, "false-alarm", "; ".join(f"{f.rule} {f.message[:80]}" for f in new[:3]))
        return (sid, prop, "silent", "")


def selfvalidate(prop=None, root="/repo", jobs=None) -> dict:
    tasks = []
    for sid, (p, edits, expect) in SEEDS.items():
        if prop is None or p == prop:
            tasks.append((root, sid, p, edits, expect, "seed"))
    for sid, (p, edits) in TWINS.items():
        if prop is None or p == prop:
            tasks.append((root, sid, p, edits, None, "twin"))
    res = []
    if len(tasks) > 3 and (jobs or 0) != 1:
        with ProcessPoolExecutor(max_workers=jobs or min(16, os.cpu_count() or 4)) as ex:
            res = list(ex.map(run_seed, tasks))
    else:
        res = [run_seed(t) for t in tasks]
    out = {"seeds": 0, "twins": 0, "detected": 0, "silent": 0, "skipped": [], "failed": [], "details": []}
    for sid, p, status, msg in res:
        out["details"].append({"id": sid, "property": p, "status": status, "detail": msg})
        if sid in SEEDS:
            out["seeds"] += 1
        else:
            out["twins"] += 1
        if status == "detected":
            out["detected"] += 1
        elif status == "silent":
            out["silent"] += 1
        elif status == "skipped":
            out["skipped"].append(sid)
        else:
            out["failed"].append(f"{sid}: {status} ({msg})")
    return out


def corpus_check(prop, root="/repo") -> dict:
    """Independent sub-agent seeds kept under /verif/seeded/<PROP>_<k>/patch.diff: each is applied
    to a throw-away copy of the current sources (outside /repo and /verif, removed at once) and
    the property's rules must report something new.  A patch that no longer applies to the
    current tree is skipped (counted)."""
    import json
    import shutil
    import subprocess
    import tempfile

    from .runner import analyse

    here = os.path.dirname(os.path.dirname(os.path.abspath(__file__)))
    sdir = os.path.join(here, "seeded")
    out = {"applied": 0, "detected": 0, "skipped": [], "missed": [], "expected_misses": []}
    if not os.path.isdir(sdir):
        return out
    base, _ = _baseline_keys(prop, root)
    for name in sorted(os.listdir(sdir)):
        if not name.startswith(prop + "_"):
            continue
        patch = os.path.join(sdir, name, "patch_current.diff")  # the seed re-expressed on today's tree
        if not os.path.exists(patch):
            patch = os.path.join(sdir, name, "patch.diff")
        meta_p = os.path.join(sdir, name, "meta.json")
        if not os.path.exists(patch):
            continue
        expected_detect = True
        if os.path.exists(meta_p):
            try:
                expected_detect = bool(json.load(open(meta_p)).get("detected_by"))
            except Exception:
                pass
        tmp = tempfile.mkdtemp(prefix="jtsa_corpus_")
        try:
            shutil.copytree(os.path.join(root, "jaxtyping"), os.path.join(tmp, "jaxtyping"), ignore=shutil.ignore_patterns("__pycache__"))
            if os.path.isdir(os.path.join(root, "docs")):
                shutil.copytree(os.path.join(root, "docs"), os.path.join(tmp, "docs"))
            r = subprocess.run(["git", "apply", "--unsafe-paths", "--directory", tmp, patch], cwd=tmp, capture_output=True, text=True)
            if r.returncode != 0:
                r = subprocess.run(["patch", "-p1", "-s", "-f", "-i", patch], cwd=tmp, capture_output=True, text=True)
            if r.returncode != 0:
                out["skipped"].append(name)
                continue
            out["applied"] += 1
            try:
                ctx = analyse(prop, tmp, thorough=False)
                new = [f for f in ctx.findings if f.key not in base]
            except AnalysisError:
                new = []
            if new:
                out["detected"] += 1
            elif expected_detect:
                out["missed"].append(name)
            else:
                out["expected_misses"].append(name)
        finally:
            shutil.rmtree(tmp, ignore_errors=True)
    return out


def _benign_one(args):
    import shutil
    import subprocess
    import tempfile

    from .runner import analyse

    prop, root, d, name, base = args
    tmp = tempfile.mkdtemp(prefix="jtsa_benign_")
    try:
        shutil.copytree(os.path.join(root, "jaxtyping"), os.path.join(tmp, "jaxtyping"), ignore=shutil.ignore_patterns("__pycache__"))
        if os.path.isdir(os.path.join(root, "docs")):
            shutil.copytree(os.path.join(root, "docs"), os.path.join(tmp, "docs"))
        r = subprocess.run(["git", "apply", "--unsafe-paths", "--directory", tmp, d], cwd=tmp, capture_output=True, text=True)
        if r.returncode != 0:
            return (name, "skipped", "")
        try:
            ctx = analyse(prop, tmp, thorough=False)
            from .runner import load_known, match_known

            known = load_known()
            fns = set(ctx.model.functions)
            new = [f for f in ctx.findings if f.key not in base and match_known(f, known, fns) is None]
            if new:
                return (name, "false_alarm", f"{new[0].rule} {new[0].message[:100]}")
            return (name, "silent", "")
        except AnalysisError as e:
            return (name, "no_verdict", str(e)[:100])
    finally:
        shutil.rmtree(tmp, ignore_errors=True)


def benign_check(prop, root="/repo") -> dict:
    """Behaviour-preserving refactorings written by independent sub-agents (benign/<R>/<k>.diff):
    applied to a throw-away copy of the current sources, the property's rules must not report a
    violation (an ANALYSIS-ERROR -- no verdict -- is tolerated and counted)."""
    import glob

    here = os.path.dirname(os.path.dirname(os.path.abspath(__file__)))
    out = {"applied": 0, "silent": 0, "no_verdict": [], "false_alarms": [], "skipped": []}
    base, _ = _baseline_keys(prop, root)
    tasks = []
    for d in sorted(glob.glob(os.path.join(here, "benign", "*", "*.diff"))):
        tasks.append((prop, root, d, os.path.relpath(d, os.path.join(here, "benign")), base))
    if not tasks:
        return out
    with ProcessPoolExecutor(max_workers=min(16, os.cpu_count() or 4)) as ex:
        res = list(ex.map(_benign_one, tasks))
    for name, status, msg in res:
        if status == "skipped":
            out["skipped"].append(name)
            continue
        out["applied"] += 1
        if status == "silent":
            out["silent"] += 1
        elif status == "no_verdict":
            out["no_verdict"].append(f"{name}: {msg}")
        else:
            out["false_alarms"].append(f"{name}: {msg}")
    return out


def main(argv, root="/repo") -> int:
    props = argv or [None]
    rc = 0
    t0 = time.time()
    for p in props:
        sv = selfvalidate(p, root)
        for d in sv["details"]:
            print(f"  {d['status']:<15} {d['property']} {d['id']}: {d['detail']}")
        print(
            f"self-validation {p or 'ALL'}: {sv['detected']}/{sv['seeds']} seeds detected, "
            f"{sv['silent']}/{sv['twins']} twins silent, {len(sv['skipped'])} skipped, "
            f"{len(sv['failed'])} failed in {time.time() - t0:.1f}s"
        )
        if sv["failed"]:
            rc = 2
    return rc
