"""Source model of /repo/jaxtyping: modules, scopes, qualified names, classes,
imports and a best-effort callee resolution -- built on `ast` only.

Where resolution cannot see something the answer is CALL-OUT / 'method' / 'unknown'
and the rules treat it conservatively (may raise e and b, may re-enter any
__instancecheck__, may not be assumed to return).
"""
from __future__ import annotations

import ast
import builtins
import os
from typing import Any, Optional, Union

from .core import AnalysisError, need

PKG = "jaxtyping"


class ModuleInfo:
    def __init__(self, relpath: str, source: str):
        self.relpath = relpath  # e.g. jaxtyping/_storage.py
        self.source = source
        try:
            self.tree = ast.parse(source, filename=relpath)
        except SyntaxError as e:  # the tree must compile
            raise AnalysisError(f"{relpath} does not parse: {e}")
        p = relpath[:-3] if relpath.endswith(".py") else relpath
        parts = p.split("/")
        if parts[-1] == "__init__":
            parts = parts[:-1]
            self.is_package = True
        else:
            self.is_package = False
        self.dotted = ".".join(parts)  # jaxtyping._storage
        self.short = ".".join(parts[1:]) or PKG  # _storage
        self.imports: dict[str, str] = {}  # local name -> dotted target
        self.functions: dict[str, "FuncInfo"] = {}  # top-level
        self.classes: dict[str, "ClassInfo"] = {}
        self.assigns: dict[str, list[ast.AST]] = {}  # module-level name -> [value nodes]
        self.assign_stmts: list[ast.stmt] = []

    @property
    def file(self):
        return self.relpath

    @property
    def qualname(self):
        return self.short + ".<module>"

    def __repr__(self):
        return f"<Module {self.dotted}>"


class ClassInfo:
    def __init__(self, node: ast.ClassDef, module: ModuleInfo, parent, qualname: str):
        self.node = node
        self.module = module
        self.parent = parent
        self.qualname = qualname
        self.name = node.name
        self.bases = list(node.bases)
        self.metaclass = None
        for kw in node.keywords:
            if kw.arg == "metaclass":
                self.metaclass = kw.value
        self.methods: dict[str, FuncInfo] = {}
        self.assigns: dict[str, list[ast.AST]] = {}
        self.file = module.relpath

    def __repr__(self):
        return f"<Class {self.qualname}>"


class FuncInfo:
    def __init__(self, node, module: ModuleInfo, parent, qualname: str):
        self.node = node
        self.module = module
        self.parent = parent  # FuncInfo | ClassInfo | None
        self.qualname = qualname
        self.name = node.name if hasattr(node, "name") else "<lambda>"
        self.file = module.relpath
        self.nested: dict[str, FuncInfo] = {}
        self.nested_classes: dict[str, ClassInfo] = {}
        self.cls: Optional[ClassInfo] = parent if isinstance(parent, ClassInfo) else None
        a = node.args
        self.params = [x.arg for x in a.posonlyargs + a.args]
        if a.vararg:
            self.params.append(a.vararg.arg)
        self.params += [x.arg for x in a.kwonlyargs]
        if a.kwarg:
            self.params.append(a.kwarg.arg)
        self.decorators = list(getattr(node, "decorator_list", []))
        self._locals: Optional[set] = None
        self._local_imports: Optional[dict] = None

    @property
    def body(self):
        b = self.node.body
        return b if isinstance(b, list) else [ast.Return(value=b)]

    @property
    def is_method(self):
        return self.cls is not None

    def local_names(self) -> set:
        """Names bound in this function's own scope (assignments, for, with, except,
        imports, nested defs/classes) -- excluding parameters."""
        if self._locals is None:
            s = set()
            for n in walk_scope(self.node):
                if isinstance(n, ast.Name) and isinstance(n.ctx, (ast.Store, ast.Del)):
                    s.add(n.id)
                elif isinstance(n, (ast.FunctionDef, ast.AsyncFunctionDef, ast.ClassDef)):
                    s.add(n.name)
                elif isinstance(n, ast.ExceptHandler) and n.name:
                    s.add(n.name)
                elif isinstance(n, (ast.Import, ast.ImportFrom)):
                    for al in n.names:
                        s.add((al.asname or al.name).split(".")[0])
            g = set()
            for n in walk_scope(self.node):
                if isinstance(n, (ast.Global, ast.Nonlocal)):
                    g.update(n.names)
            self._locals = s - g
            self._globals_declared = g
        return self._locals

    def local_imports(self, model) -> dict:
        """Function-level imports: local name -> dotted target."""
        if self._local_imports is None:
            d = {}
            for n in walk_scope(self.node):
                if isinstance(n, ast.Import):
                    for al in n.names:
                        if al.asname:
                            d[al.asname] = al.name
                        else:
                            d[al.name.split(".")[0]] = al.name.split(".")[0]
                elif isinstance(n, ast.ImportFrom):
                    base = model._resolve_relative(self.module, n.level, n.module)
                    for al in n.names:
                        d[al.asname or al.name] = f"{base}.{al.name}" if base else al.name
            self._local_imports = d
        return self._local_imports

    def declared_global(self) -> set:
        self.local_names()
        return self._globals_declared

    def __repr__(self):
        return f"<Func {self.qualname}>"


def walk_scope(fnode):
    """Walk a function body without descending into nested function/class bodies
    (the nested def/class node itself is yielded)."""
    body = fnode.body if isinstance(fnode.body, list) else [fnode.body]
    stack = list(reversed(body))
    while stack:
        n = stack.pop()
        yield n
        if isinstance(n, (ast.FunctionDef, ast.AsyncFunctionDef, ast.ClassDef, ast.Lambda)):
            # decorators / defaults are evaluated in the enclosing scope
            for d in getattr(n, "decorator_list", []):
                stack.append(d)
            continue
        for c in reversed(list(ast.iter_child_nodes(n))):
            stack.append(c)


def walk_with_lambdas(fnode):
    """Like walk_scope but descends into lambdas and comprehensions (they run in the
    activation of the function if called there)."""
    body = fnode.body if isinstance(fnode.body, list) else [fnode.body]
    stack = list(reversed(body))
    while stack:
        n = stack.pop()
        yield n
        if isinstance(n, (ast.FunctionDef, ast.AsyncFunctionDef, ast.ClassDef)):
            for d in getattr(n, "decorator_list", []):
                stack.append(d)
            continue
        for c in reversed(list(ast.iter_child_nodes(n))):
            stack.append(c)


class Binding:
    """Result of resolving a name."""

    def __init__(self, kind: str, target: Any = None, name: str = "", owner=None):
        self.kind = kind  # func|class|ext|modvar|param|local|builtin|unknown|freevar
        self.target = target
        self.name = name
        self.owner = owner  # scope that owns the binding

    def __repr__(self):
        return f"<Binding {self.kind} {self.name} {self.target!r}>"


class CallTarget:
    def __init__(self, kind: str, target: Any = None, name: str = "", recv=None):
        self.kind = kind  # func|class|ext|callout|method|unknown
        self.target = target
        self.name = name
        self.recv = recv

    @property
    def dotted(self) -> str:
        if self.kind == "ext":
            return self.target
        if self.kind == "func":
            return self.target.qualname
        if self.kind == "class":
            return self.target.qualname
        return self.name

    def __repr__(self):
        return f"<Call {self.kind} {self.dotted}>"


class Model:
    def __init__(self, root: str = "/repo", overrides: Optional[dict] = None, inline: bool = True):
        self.root = root
        self.overrides = overrides or {}
        self.modules: dict[str, ModuleInfo] = {}  # by short name
        self.by_dotted: dict[str, ModuleInfo] = {}
        self.functions: dict[str, FuncInfo] = {}  # by qualname
        self.classes: dict[str, ClassInfo] = {}
        self.func_of_node: dict[int, FuncInfo] = {}
        self.docs: dict[str, str] = {}
        self.inlined: list = []  # callers into which helpers new w.r.t. the pinned inventory were inlined
        self._load()
        if inline:
            self._inline_new_helpers()

    def _inline_new_helpers(self):
        """Normalisation (jtsa/inline.py): helpers that do not exist in the pinned tree are inlined
        into their callers, then the model is re-indexed.  A no-op on the pinned tree."""
        try:
            from .inventory import FUNCTIONS, MODULE_NAMES
        except ImportError:
            return
        from .inline import MAX_ROUNDS, canonical_spellings, collapse_return_temps, collapse_test_temps, forward_substitute_new_temps, dissolve_attribute_records, dissolve_parameter_objects, fold_after_inlining, propagate_local_aliases, desugar_ifexp, desugar_match, desugar_exitstacks, desugar_partials_and_extends, desugar_return_all_any, dissolve_new_cm_classes, drop_absorbed_helpers, scalarise_local_objects, desugar_module_name_tables, unify_duplicate_unpackings, erase_namedtuple_interfaces, desugar_walrus, erase_new_namedtuples, inline_new_helpers, scalarise_local_dicts, unroll_new_tables, propagate_new_constants

        # functions whose source differs from the pinned tree (digest of ast.dump): only those are rewritten by the
        # statement-level normalisations that would otherwise also touch pinned code
        try:
            from .inventory import HASHES
        except ImportError:
            HASHES = {}
        import hashlib

        # spellings first: the renaming passes below match locals by how they are defined and used (`for i, v in enumerate(xs)` vs
        # `for i in range(len(xs)): v = xs[i]` give `v` another fingerprint)
        if canonical_spellings(self):
            self._reindex()
        self.changed_functions = {q for q, f_ in self.functions.items() if not f_.module.short.startswith("_typeguard")
                                  and HASHES.get(q) != hashlib.sha1(ast.dump(f_.node).encode()).hexdigest()[:12]}
        # pinned functions that exist under a new name get their name back, everywhere in the package
        try:
            from .inventory import SIGNATURES, BAGS
        except ImportError:
            SIGNATURES, BAGS = {}, {}
        from .alpha import rename_functions_back

        try:
            from .inventory import CLASSES
        except ImportError:
            CLASSES = {}
        from .alpha import rename_classes_back

        self.classes_renamed = rename_classes_back(self, CLASSES)
        from .alpha import move_functions_back

        self.functions_moved = move_functions_back(self, FUNCTIONS, SIGNATURES, BAGS)
        self.functions_renamed = rename_functions_back(self, FUNCTIONS, SIGNATURES, BAGS)
        if self.functions_renamed or self.classes_renamed or self.functions_moved:
            self.changed_functions = {q for q, f_ in self.functions.items() if not f_.module.short.startswith("_typeguard")
                                      and HASHES.get(q) != hashlib.sha1(ast.dump(f_.node).encode()).hexdigest()[:12]}
        try:
            from .inventory import LOCALS
        except ImportError:
            LOCALS = {}
        from .alpha import rename_locals_back

        from .alpha import rename_params_back

        self.params_renamed = rename_params_back(self, self.changed_functions, SIGNATURES) if self.changed_functions else []
        if self.params_renamed:
            self._reindex()
        self.locals_renamed = rename_locals_back(self, self.changed_functions, LOCALS) if self.changed_functions else []
        if self.locals_renamed:
            self._reindex()
        try:
            from .inventory import CALL_CONVENTIONS
        except ImportError:
            CALL_CONVENTIONS = {}
        from .alpha import normalise_call_conventions

        if normalise_call_conventions(self, CALL_CONVENTIONS):
            self._reindex()
        from .inline import desugar_next_search, sink_found_actions as _sink

        if self.changed_functions and desugar_next_search(self, self.changed_functions):
            _sink(self, self.changed_functions)
            self._reindex()
        self.walrus_desugared = desugar_walrus(self, self.changed_functions) if self.changed_functions else []
        if self.walrus_desugared:
            self._reindex()
        if canonical_spellings(self):
            self._reindex()
        if self.changed_functions and collapse_return_temps(self, self.changed_functions):
            self._reindex()
        if self.changed_functions and collapse_test_temps(self, self.changed_functions):
            self._reindex()
        if desugar_match(self):
            self._reindex()
        if desugar_ifexp(self):
            self._reindex()
        if desugar_partials_and_extends(self):
            self._reindex()
        if desugar_exitstacks(self):
            self._reindex()

        self.namedtuples_erased = erase_new_namedtuples(self, MODULE_NAMES)
        if self.namedtuples_erased:
            self._reindex()
        self.namedtuple_interfaces_erased = erase_namedtuple_interfaces(self, MODULE_NAMES)
        if self.namedtuple_interfaces_erased:
            self._reindex()
            self.changed_functions = {q for q, f_ in self.functions.items() if not f_.module.short.startswith("_typeguard")
                                      and HASHES.get(q) != hashlib.sha1(ast.dump(f_.node).encode()).hexdigest()[:12]}

        self.records_dissolved = dissolve_parameter_objects(self, MODULE_NAMES)
        if self.records_dissolved:
            self._reindex()
        self.attr_records_dissolved = dissolve_attribute_records(self, MODULE_NAMES)
        if self.attr_records_dissolved:
            self._reindex()
        self.aliases_propagated = propagate_local_aliases(self, self.changed_functions) if self.changed_functions else []
        if self.aliases_propagated:
            self._reindex()
        self.cms_dissolved = []
        for _ in range(4):
            d_ = dissolve_new_cm_classes(self, MODULE_NAMES)
            if not d_:
                break
            self.cms_dissolved += d_
            self._reindex()

        if self.cms_dissolved:
            hashes_ = {q for q, f_ in self.functions.items() if not f_.module.short.startswith("_typeguard") and HASHES.get(q) != hashlib.sha1(ast.dump(f_.node).encode()).hexdigest()[:12]}
            if unify_duplicate_unpackings(self, hashes_):
                self._reindex()
        self.name_tables = desugar_module_name_tables(self, MODULE_NAMES)
        if self.name_tables:
            self._reindex()
        self.tables_unrolled = unroll_new_tables(self, MODULE_NAMES)
        if self.tables_unrolled:
            self.dicts_scalarised = scalarise_local_dicts(self)
            self._reindex()

        self.constants_substituted = propagate_new_constants(self, MODULE_NAMES)
        if self.constants_substituted:
            self._reindex()

        for _ in range(MAX_ROUNDS):
            changed = inline_new_helpers(self, FUNCTIONS)
            if not changed:
                break
            self.inlined += changed
            self._reindex()
        self.temps_substituted = forward_substitute_new_temps(self, set(self.changed_functions) | set(self.inlined), LOCALS) if self.changed_functions else []
        if self.temps_substituted:
            self._reindex()
        if self.inlined:
            # records that only became visible as constructor arguments once a factory was inlined
            if dissolve_attribute_records(self, MODULE_NAMES):
                self._reindex()
            self.objects_scalarised = scalarise_local_objects(self, MODULE_NAMES, set(self.inlined) | set(self.changed_functions))
            if self.objects_scalarised:
                self._reindex()
            if fold_after_inlining(self, self.inlined):
                self._reindex()
            from .inline import sink_found_actions

            if sink_found_actions(self, set(self.inlined) | set(self.changed_functions)):
                self._reindex()
            self.absorbed = drop_absorbed_helpers(self, FUNCTIONS)
            if self.absorbed:
                self._reindex()
        if self.cms_dissolved or self.inlined:
            hashes_ = {q for q, f_ in self.functions.items() if not f_.module.short.startswith("_typeguard") and HASHES.get(q) != hashlib.sha1(ast.dump(f_.node).encode()).hexdigest()[:12]}
            if self.cms_dissolved and propagate_local_aliases(self, hashes_):
                self._reindex()
            if unify_duplicate_unpackings(self, hashes_):
                self._reindex()
        if desugar_return_all_any(self):
            self._reindex()

    def _reindex(self):
        self.functions.clear()
        self.classes.clear()
        self.func_of_node.clear()
        self.__dict__.pop("_ic_cache", None)
        for m in self.modules.values():
            m.imports.clear()
            m.functions.clear()
            m.classes.clear()
            m.assigns.clear()
            m.assign_stmts.clear()
        for m in self.modules.values():
            self._index_module(m)

    # ------------------------------------------------------------------ load
    def read(self, relpath: str) -> Optional[str]:
        if relpath in self.overrides:
            return self.overrides[relpath]
        p = os.path.join(self.root, relpath)
        if not os.path.exists(p):
            return None
        with open(p, encoding="utf-8") as f:
            return f.read()

    def _load(self):
        pkgdir = os.path.join(self.root, PKG)
        need(os.path.isdir(pkgdir), f"package directory {pkgdir} not found")
        rels = []
        for dirpath, dirnames, filenames in os.walk(pkgdir):
            dirnames[:] = sorted(d for d in dirnames if d != "__pycache__")
            for fn in sorted(filenames):
                if fn.endswith(".py"):
                    rels.append(os.path.relpath(os.path.join(dirpath, fn), self.root))
        for r in self.overrides:
            if r.endswith(".py") and r.startswith(PKG + "/") and r not in rels:
                rels.append(r)
        for rel in rels:
            src = self.read(rel)
            m = ModuleInfo(rel, src)
            self.modules[m.short] = m
            self.by_dotted[m.dotted] = m
        for m in self.modules.values():
            self._index_module(m)
        docdir = os.path.join(self.root, "docs", "api")
        if os.path.isdir(docdir):
            for fn in sorted(os.listdir(docdir)):
                if fn.endswith(".md"):
                    rel = f"docs/api/{fn}"
                    self.docs[rel] = self.read(rel)
        for r, s in self.overrides.items():
            if r.startswith("docs/"):
                self.docs[r] = s

    def _index_module(self, m: ModuleInfo):
        self._index_body(m.tree.body, m, None, m.short)

    def _resolve_relative(self, m: ModuleInfo, level: int, module: Optional[str]) -> str:
        if level == 0:
            return module or ""
        parts = m.dotted.split(".")
        if not m.is_package:
            parts = parts[:-1]
        if level > 1:
            parts = parts[: len(parts) - (level - 1)]
        if module:
            parts = parts + module.split(".")
        return ".".join(parts)

    def _index_body(self, body, m: ModuleInfo, parent, prefix: str):
        """Index defs/classes/imports/assigns in a body.  For module bodies we also
        look inside top-level if/else/try blocks (conditional definitions)."""
        for st in body:
            if isinstance(st, (ast.FunctionDef, ast.AsyncFunctionDef)):
                self._index_func(st, m, parent, prefix)
            elif isinstance(st, ast.ClassDef):
                self._index_class(st, m, parent, prefix)
            elif isinstance(st, ast.Import) and parent is None:
                for al in st.names:
                    if al.asname:
                        m.imports[al.asname] = al.name
                    else:
                        m.imports[al.name.split(".")[0]] = al.name.split(".")[0]
            elif isinstance(st, ast.ImportFrom) and parent is None:
                base = self._resolve_relative(m, st.level, st.module)
                for al in st.names:
                    m.imports[al.asname or al.name] = f"{base}.{al.name}" if base else al.name
            elif isinstance(st, (ast.Assign, ast.AnnAssign, ast.AugAssign)) and parent is None:
                m.assign_stmts.append(st)
                tgts = st.targets if isinstance(st, ast.Assign) else [st.target]
                for t in tgts:
                    for n in ast.walk(t):
                        if isinstance(n, ast.Name) and isinstance(n.ctx, ast.Store):
                            val = getattr(st, "value", None)
                            m.assigns.setdefault(n.id, []).append(val)
            elif isinstance(st, (ast.If, ast.Try, ast.With)) and parent is None:
                for sub in _sub_bodies(st):
                    self._index_body(sub, m, parent, prefix)

    def _index_func(self, node, m, parent, prefix):
        if isinstance(parent, FuncInfo):
            qn = f"{parent.qualname}.<locals>.{node.name}"
        elif isinstance(parent, ClassInfo):
            qn = f"{parent.qualname}.{node.name}"
        else:
            qn = f"{prefix}.{node.name}"
        base_qn, k = qn, 1
        if any(
            (isinstance(d, ast.Name) and d.id == "overload")
            or (isinstance(d, ast.Attribute) and d.attr == "overload")
            for d in node.decorator_list
        ):
            qn = base_qn = f"{qn}@overload"
        while qn in self.functions:  # overloads / conditional redefinitions
            k += 1
            qn = f"{base_qn}#{k}"
        f = FuncInfo(node, m, parent, qn)
        self.functions[qn] = f
        self.func_of_node[id(node)] = f
        if isinstance(parent, FuncInfo):
            parent.nested[node.name] = f  # last definition wins (runtime semantics)
        elif isinstance(parent, ClassInfo):
            parent.methods[node.name] = f
        else:
            m.functions[node.name] = f
        # nested defs/classes anywhere in the body (not descending into them)
        for n in walk_scope(node):
            if isinstance(n, (ast.FunctionDef, ast.AsyncFunctionDef)):
                self._index_func(n, m, f, prefix)
            elif isinstance(n, ast.ClassDef):
                self._index_class(n, m, f, prefix)
        return f

    def _index_class(self, node, m, parent, prefix):
        if isinstance(parent, FuncInfo):
            qn = f"{parent.qualname}.<locals>.{node.name}"
        elif isinstance(parent, ClassInfo):
            qn = f"{parent.qualname}.{node.name}"
        else:
            qn = f"{prefix}.{node.name}"
        base_qn, k = qn, 1
        while qn in self.classes:
            k += 1
            qn = f"{base_qn}#{k}"
        c = ClassInfo(node, m, parent, qn)
        self.classes[qn] = c
        if isinstance(parent, FuncInfo):
            parent.nested_classes[node.name] = c
        elif parent is None:
            m.classes[node.name] = c
        for st in node.body:
            if isinstance(st, (ast.FunctionDef, ast.AsyncFunctionDef)):
                self._index_func(st, m, c, prefix)
            elif isinstance(st, ast.ClassDef):
                self._index_class(st, m, c, prefix)
            elif isinstance(st, (ast.Assign, ast.AnnAssign)):
                tgts = st.targets if isinstance(st, ast.Assign) else [st.target]
                for t in tgts:
                    if isinstance(t, ast.Name):
                        c.assigns.setdefault(t.id, []).append(getattr(st, "value", None))
            elif isinstance(st, (ast.If, ast.Try)):
                for sub in _sub_bodies(st):
                    for s2 in sub:
                        if isinstance(s2, (ast.FunctionDef, ast.AsyncFunctionDef)):
                            self._index_func(s2, m, c, prefix)
        return c

    # ---------------------------------------------------------------- lookup
    def module(self, short: str) -> ModuleInfo:
        return need(self.modules.get(short), f"module {short} not found in {PKG}")

    def overriders(self, f: "FuncInfo") -> list:
        """Methods of package classes (vendored typeguard aside) that override the method `f` in a subclass of f's class."""
        if f.cls is None:
            return []
        out = []
        for k in self.classes.values():
            if k is f.cls or k.module.short.startswith("_typeguard") or f.name not in k.methods:
                continue
            if any(b is f.cls for b in self.mro(k)[1:]):
                out.append(k.methods[f.name])
        return out

    def func(self, qualname: str) -> FuncInfo:
        f = self.functions.get(qualname)
        if f is not None and f.cls is not None and not f.module.short.startswith("_typeguard"):
            ov = self.overriders(f)
            if ov:
                # which implementation runs is decided by the class of the receiver (for annotation metaclasses: at class creation); the
                # rules read the anchor method as *the* implementation, which it no longer is
                raise AnalysisError(f"anchor method {qualname} is overridden by {', '.join(o.qualname for o in ov)}: which implementation runs depends on the receiver's class, "
                                    "which is not modelled")
        if f is None and qualname.count(".") == 1:
            # a module-level name re-bound to a function defined elsewhere (`name = Class.method`)
            modshort, name = qualname.split(".")
            mod = self.modules.get(modshort)
            if mod is not None:
                vals = mod.assigns.get(name, [])
                if len(vals) == 1 and vals[0] is not None:
                    r = self.resolve_expr_static(mod, vals[0])
                    if isinstance(r, FuncInfo):
                        return r
        if f is None:
            f = self._renamed(qualname)
        return need(f, f"anchor function {qualname} not found")

    def _renamed(self, qualname: str):
        """A pinned function that exists under a new name: the only function of the same module that is
        not in the pinned inventory and has exactly the pinned parameter list (at least one parameter)."""
        try:
            from .inventory import FUNCTIONS, SIGNATURES
        except ImportError:
            return None
        ps = SIGNATURES.get(qualname)
        if not ps:
            return None
        mod = qualname.split(".")[0]
        cands = [g for q, g in self.functions.items() if g.module.short == mod and q not in FUNCTIONS and tuple(g.params) == tuple(ps)
                 and "<locals>" not in q]
        try:
            from .inventory import BAGS
        except ImportError:
            BAGS = {}
        from .alpha import pick_renamed
        return pick_renamed(cands, BAGS.get(qualname))

    def is_call_to(self, scope, call, qualname: str) -> bool:
        """Does `call` (seen from `scope`) invoke the anchor function `qualname` -- under whatever name /
        through whatever receiver (`f(..)`, `cls.f(..)`, `Class.f(..)`, a module-level alias) it is reached?"""
        if not isinstance(call, ast.Call):
            return False
        try:
            target = self.func(qualname)
        except Exception:
            return False
        try:
            t = self.resolve_call(scope, call)
        except Exception:
            t = None
        if t is not None and t.kind == "func" and t.target is target:
            return True
        # the pinned spelling (the resolver may not follow an exotic receiver)
        fn = call.func
        last = fn.id if isinstance(fn, ast.Name) else fn.attr if isinstance(fn, ast.Attribute) else None
        if last is None or last != target.name:
            return False
        if isinstance(fn, ast.Name):
            return t is None or t.kind not in ("func", "class")
        # Attribute receiver: a class / cls / self that owns the target
        if target.cls is not None and isinstance(fn.value, ast.Name):
            if fn.value.id in ("cls", "self", "mcs", target.cls.name):
                return True
        return False

    def func_opt(self, qualname: str) -> Optional[FuncInfo]:
        return self.functions.get(qualname)

    def cls(self, qualname: str) -> ClassInfo:
        return need(self.classes.get(qualname), f"anchor class {qualname} not found")

    def all_functions(self, include_typeguard=True):
        for f in self.functions.values():
            if not include_typeguard and f.module.short.startswith("_typeguard"):
                continue
            yield f

    def resolve_dotted(self, dotted: str) -> Binding:
        """Resolve a dotted name that may point inside the package."""
        if dotted == PKG or dotted.startswith(PKG + "."):
            # longest module prefix
            parts = dotted.split(".")
            for i in range(len(parts), 0, -1):
                modname = ".".join(parts[:i])
                m = self.by_dotted.get(modname)
                if m is not None:
                    rest = parts[i:]
                    if not rest:
                        return Binding("module", m, dotted)
                    return self._resolve_in_module(m, rest, dotted)
        return Binding("ext", dotted, dotted)

    def _resolve_in_module(self, m: ModuleInfo, rest: list, dotted: str, depth=0) -> Binding:
        name = rest[0]
        if depth > 6:
            return Binding("unknown", None, dotted)
        if name in m.functions and len(rest) == 1:
            return Binding("func", m.functions[name], dotted)
        if name in m.classes:
            c = m.classes[name]
            if len(rest) == 1:
                return Binding("class", c, dotted)
            if len(rest) == 2:
                f = self.lookup_method(c, rest[1])
                if f is not None:
                    return Binding("func", f, dotted)
                return Binding("classattr", (c, rest[1]), dotted)
        if name in m.assigns and len(rest) == 1:
            vals = m.assigns[name]
            if len(vals) == 1 and isinstance(vals[0], ast.Attribute):
                r = self.resolve_expr_static(m, vals[0])
                if isinstance(r, FuncInfo):
                    return Binding("func", r, dotted)
            return Binding("modvar", (m, name), dotted)
        if name in m.imports:
            tgt = m.imports[name]
            b = self.resolve_dotted(".".join([tgt] + rest[1:]))
            return b
        # sub-module?
        sub = self.by_dotted.get(m.dotted + "." + name)
        if sub is not None:
            if len(rest) == 1:
                return Binding("module", sub, dotted)
            return self._resolve_in_module(sub, rest[1:], dotted, depth + 1)
        return Binding("unknown", None, dotted)

    def resolve_name(self, scope, name: str) -> Binding:
        """Resolve `name` as seen from `scope` (FuncInfo | ClassInfo | ModuleInfo)."""
        s = scope
        first = True
        while s is not None and not isinstance(s, ModuleInfo):
            if isinstance(s, FuncInfo):
                if name in s.declared_global():
                    break
                if name in s.nested:
                    return Binding("func", s.nested[name], name, owner=s)
                if name in s.nested_classes:
                    return Binding("class", s.nested_classes[name], name, owner=s)
                if name in s.params:
                    return Binding("param" if first else "freevar", None, name, owner=s)
                if name in s.local_names():
                    li = s.local_imports(self)
                    if name in li:
                        b = self.resolve_dotted(li[name])
                        b.name = name
                        return b
                    return Binding("local" if first else "freevar", None, name, owner=s)
                first = False
            elif isinstance(s, ClassInfo):
                # class scope is not visible from methods; only when scope itself is the class
                if s is scope:
                    if name in s.methods:
                        return Binding("func", s.methods[name], name, owner=s)
                    if name in s.assigns:
                        return Binding("classattr", (s, name), name, owner=s)
            s = s.parent
        m = scope if isinstance(scope, ModuleInfo) else scope.module
        if name in m.functions:
            return Binding("func", m.functions[name], name, owner=m)
        if name in m.classes:
            return Binding("class", m.classes[name], name, owner=m)
        if name in m.imports:
            b = self.resolve_dotted(m.imports[name])
            b.name = name
            return b
        if name in m.assigns:
            vals = m.assigns[name]
            if len(vals) == 1 and isinstance(vals[0], ast.Attribute) and not getattr(self, "_resolving_alias", False):
                # `name = Class.method` / `name = module.func`: an alias of a function
                self._resolving_alias = True
                try:
                    r = self.resolve_expr_static(m, vals[0])
                finally:
                    self._resolving_alias = False
                if isinstance(r, FuncInfo):
                    return Binding("func", r, name, owner=m)
            return Binding("modvar", (m, name), name, owner=m)
        if hasattr(builtins, name):
            return Binding("builtin", f"builtins.{name}", name)
        return Binding("unknown", None, name)

    # class helpers --------------------------------------------------------
    def class_bases(self, c: ClassInfo) -> list:
        """Resolved bases: ClassInfo for internal ones, dotted str for external."""
        out = []
        for b in c.bases:
            out.append(self.resolve_expr_static(c.parent or c.module, b))
        return out

    def resolve_expr_static(self, scope, e) -> Union[ClassInfo, FuncInfo, str, None]:
        """Resolve a Name / dotted Attribute expression to an internal entity or an
        external dotted string; None if not a static reference."""
        if isinstance(e, ast.Name):
            b = self.resolve_name(scope, e.id)
            if b.kind in ("func", "class"):
                return b.target
            if b.kind in ("ext", "builtin"):
                return b.target
            if b.kind == "module":
                return b.target.dotted
            return None
        if isinstance(e, ast.Attribute):
            if isinstance(e.value, ast.Name) and isinstance(scope, FuncInfo) and scope.cls is not None and scope.params and e.value.id == scope.params[0] \
                    and e.value.id in ("self", "cls", "mcs"):
                # `self.method` / `cls.method` inside a method: the method of the enclosing class (or a base)
                f = self.lookup_method(scope.cls, e.attr)
                if f is not None:
                    return f
            base = self.resolve_expr_static(scope, e.value)
            if isinstance(base, str):
                b = self.resolve_dotted(base + "." + e.attr)
                if b.kind in ("func", "class"):
                    return b.target
                if b.kind == "ext":
                    return b.target
                if b.kind == "module":
                    return b.target.dotted
                return None
            if isinstance(base, ClassInfo):
                f = self.lookup_method(base, e.attr)
                return f
            return None
        return None

    def mro(self, c: ClassInfo) -> list:
        out, seen = [], set()

        def rec(k):
            if id(k) in seen:
                return
            seen.add(id(k))
            out.append(k)
            if isinstance(k, ClassInfo):
                for b in self.class_bases(k):
                    if b is not None:
                        rec(b)

        rec(c)
        return out

    def lookup_method(self, c: ClassInfo, name: str) -> Optional[FuncInfo]:
        for k in self.mro(c):
            if isinstance(k, ClassInfo) and name in k.methods:
                return k.methods[name]
        return None

    def metaclass_of(self, c: ClassInfo) -> Optional[ClassInfo]:
        for k in self.mro(c):
            if isinstance(k, ClassInfo) and k.metaclass is not None:
                r = self.resolve_expr_static(k.parent or k.module, k.metaclass)
                if isinstance(r, ClassInfo):
                    return r
        return None

    def is_metaclass(self, c: ClassInfo) -> bool:
        return any(b == "builtins.type" for b in self.mro(c) if isinstance(b, str))

    def external_bases(self, c: ClassInfo) -> list:
        return [b for b in self.mro(c) if isinstance(b, str)]

    # instance typing ---------------------------------------------------------
    def instance_class(self, scope, e, _depth=0) -> Optional[ClassInfo]:
        """Class of the object an expression evaluates to, when that is evident from a single
        binding: `Cls(...)`; a module-level / local name bound exactly once to `Cls(...)`; the
        first parameter of a method (its own class); `self.attr` bound in the class to `Cls(...)`.
        Only internal classes; None when not evident."""
        if _depth > 4:
            return None
        if isinstance(e, ast.Call):
            t = self.resolve_expr_static(scope, e.func) if isinstance(e.func, (ast.Name, ast.Attribute)) else None
            if isinstance(t, ClassInfo) and not self.is_metaclass(t):
                return t
            return None
        if isinstance(e, ast.Name):
            b = self.resolve_name(scope, e.id)
            if b.kind == "modvar":
                m, name = b.target
                vals = m.assigns.get(name, [])
                if len(vals) == 1 and vals[0] is not None:
                    return self.instance_class(m, vals[0], _depth + 1)
                return None
            if b.kind in ("local", "freevar") and isinstance(b.owner, FuncInfo):
                cache = self.__dict__.setdefault("_ic_cache", {})
                ck = (id(b.owner), e.id)
                if ck in cache:
                    return cache[ck]
                cache[ck] = None  # recursion guard
                vals = []
                for n in walk_scope(b.owner.node):
                    if isinstance(n, ast.Assign):
                        for t in n.targets:
                            for x in ast.walk(t):
                                if isinstance(x, ast.Name) and x.id == e.id and isinstance(x.ctx, ast.Store):
                                    vals.append(n.value if t is x else None)
                    elif isinstance(n, (ast.AnnAssign, ast.AugAssign, ast.NamedExpr)) and isinstance(n.target, ast.Name) and n.target.id == e.id:
                        vals.append(getattr(n, "value", None) if isinstance(n, (ast.AnnAssign, ast.NamedExpr)) else None)
                    elif isinstance(n, (ast.For, ast.AsyncFor, ast.comprehension)):
                        for x in ast.walk(n.target):
                            if isinstance(x, ast.Name) and x.id == e.id:
                                vals.append(None)
                    elif isinstance(n, ast.withitem) and n.optional_vars is not None:
                        for x in ast.walk(n.optional_vars):
                            if isinstance(x, ast.Name) and x.id == e.id:
                                vals.append(None)
                    elif isinstance(n, ast.ExceptHandler) and n.name == e.id:
                        vals.append(None)
                if len(vals) == 1 and vals[0] is not None:
                    cache[ck] = self.instance_class(b.owner, vals[0], _depth + 1)
                return cache[ck]
            if b.kind in ("param", "freevar") and isinstance(b.owner, FuncInfo):
                o = b.owner
                if o.cls is not None and o.params and o.params[0] == e.id and not _is_static(o) and not _is_classmethod(o) \
                        and not self.is_metaclass(o.cls):
                    return o.cls
            return None
        if isinstance(e, ast.Attribute):
            base = self.instance_class(scope, e.value, _depth + 1)
            if base is not None:
                vals = self.instance_attr_values(base, e.attr)
                if len(vals) == 1 and vals[0][1] is not None:
                    return self.instance_class(vals[0][0], vals[0][1], _depth + 1)
            return None
        return None

    def instance_attr_values(self, c: ClassInfo, attr: str) -> list:
        """All (method, value) pairs `self.<attr> = value` in the methods of class c (and its
        internal bases); value None for non-plain stores."""
        out = []
        for k in self.mro(c):
            if not isinstance(k, ClassInfo):
                continue
            for mth in k.methods.values():
                if not mth.params or _is_static(mth):
                    continue
                me = mth.params[0]
                for n in walk_scope(mth.node):
                    tgts = []
                    if isinstance(n, ast.Assign):
                        tgts = [(t, n.value) for t in n.targets]
                    elif isinstance(n, (ast.AnnAssign, ast.AugAssign)):
                        tgts = [(n.target, getattr(n, "value", None) if isinstance(n, ast.AnnAssign) else None)]
                    for t, v in tgts:
                        for x in ([t] if not isinstance(t, (ast.Tuple, ast.List)) else t.elts):
                            if isinstance(x, ast.Attribute) and x.attr == attr and isinstance(x.value, ast.Name) and x.value.id == me:
                                out.append((mth, v if x is t else None))
        return out

    # calls ------------------------------------------------------------------
    def enclosing_class(self, fn) -> Optional[ClassInfo]:
        s = fn
        while s is not None and not isinstance(s, ModuleInfo):
            if isinstance(s, ClassInfo):
                return s
            if isinstance(s, FuncInfo) and s.cls is not None:
                return s.cls
            s = s.parent
        return None

    def resolve_call(self, fn, call: ast.Call) -> CallTarget:
        f = call.func
        scope = fn if fn is not None else None
        if isinstance(f, ast.Name):
            b = self.resolve_name(scope, f.id)
            if b.kind == "func":
                return CallTarget("func", b.target, f.id)
            if b.kind == "class":
                return CallTarget("class", b.target, f.id)
            if b.kind in ("ext", "builtin"):
                return CallTarget("ext", b.target, f.id)
            if b.kind in ("param", "local", "freevar", "modvar"):
                # a local that is only ever bound by a nested def was handled above;
                # an object of an evident internal class is called through its __call__;
                # anything else is a call through a variable
                ic = self.instance_class(scope, f)
                if ic is not None:
                    m = self.lookup_method(ic, "__call__")
                    if m is not None:
                        return CallTarget("func", m, f.id, recv=f)
                return CallTarget("callout", None, f.id)
            return CallTarget("unknown", None, f.id)
        if isinstance(f, ast.Attribute):
            # super().m(...)
            if (
                isinstance(f.value, ast.Call)
                and isinstance(f.value.func, ast.Name)
                and f.value.func.id == "super"
            ):
                c = self.enclosing_class(fn)
                if c is not None:
                    for k in self.mro(c)[1:]:
                        if isinstance(k, ClassInfo):
                            if f.attr in k.methods:
                                return CallTarget("func", k.methods[f.attr], f.attr)
                        else:
                            return CallTarget("ext", f"{k}.{f.attr}", f.attr)
                return CallTarget("method", None, f.attr, recv=f.value)
            # self.m / cls.m
            if isinstance(f.value, ast.Name) and isinstance(fn, FuncInfo):
                owner = fn
                # the first parameter of the nearest enclosing *method*
                s = fn
                while isinstance(s, FuncInfo) and s.cls is None:
                    s = s.parent
                if isinstance(s, FuncInfo) and s.cls is not None and s.params:
                    if f.value.id == s.params[0] and not _is_static(s):
                        b0 = self.resolve_name(fn, f.value.id)
                        if b0.kind in ("param", "freevar"):
                            m = self.lookup_method(s.cls, f.attr)
                            if m is not None:
                                return CallTarget("func", m, f.attr, recv=f.value)
                            return CallTarget("method", None, f.attr, recv=f.value)
            st = self.resolve_expr_static(scope, f)
            if isinstance(st, FuncInfo):
                return CallTarget("func", st, f.attr)
            if isinstance(st, ClassInfo):
                return CallTarget("class", st, f.attr)
            if isinstance(st, str):
                return CallTarget("ext", st, f.attr)
            ic = self.instance_class(scope, f.value) if scope is not None else None
            if ic is not None:
                m = self.lookup_method(ic, f.attr)
                if m is not None:
                    return CallTarget("func", m, f.attr, recv=f.value)
            return CallTarget("method", None, f.attr, recv=f.value)
        if isinstance(f, ast.Call):
            return CallTarget("callout", None, "<call-result>")
        if isinstance(f, ast.Subscript):
            return CallTarget("callout", None, "<subscript>")
        if isinstance(f, ast.Lambda):
            return CallTarget("callout", None, "<lambda>")
        return CallTarget("unknown", None, "?")

    def calls_in(self, fn: FuncInfo, lambdas=True):
        """All ast.Call nodes executed in the activation of fn (not nested defs)."""
        it = walk_with_lambdas(fn.node) if lambdas else walk_scope(fn.node)
        for n in it:
            if isinstance(n, ast.Call):
                yield n


def _is_static(f: FuncInfo) -> bool:
    for d in f.decorators:
        if isinstance(d, ast.Name) and d.id == "staticmethod":
            return True
    return False


def _is_classmethod(f: FuncInfo) -> bool:
    for d in f.decorators:
        if isinstance(d, ast.Name) and d.id == "classmethod":
            return True
    return False


def _sub_bodies(st):
    if isinstance(st, ast.If):
        return [st.body, st.orelse]
    if isinstance(st, ast.Try):
        return [st.body, st.orelse, st.finalbody] + [h.body for h in st.handlers]
    if isinstance(st, ast.With):
        return [st.body]
    return []


def dotted_of(e) -> Optional[str]:
    """Syntactic dotted name of a Name/Attribute chain."""
    if isinstance(e, ast.Name):
        return e.id
    if isinstance(e, ast.Attribute):
        b = dotted_of(e.value)
        return None if b is None else f"{b}.{e.attr}"
    return None


def root_name(e) -> Optional[str]:
    """Root Name id of an Attribute/Subscript/Call chain."""
    while True:
        if isinstance(e, ast.Name):
            return e.id
        if isinstance(e, (ast.Attribute, ast.Subscript, ast.Starred)):
            e = e.value
        elif isinstance(e, ast.Call):
            e = e.func
        else:
            return None
