"""Runs the rules of one property, writes evidence, applies the known-findings file."""
from __future__ import annotations

import importlib
import json
import os
import sys
import time
import traceback

from .core import AnalysisError, Finding, RuleContext
from .model import Model

HERE = os.path.dirname(os.path.abspath(__file__))
VERIF = os.path.dirname(HERE)
EVIDENCE_DIR = os.path.join(VERIF, "evidence")
KNOWN_FILE = os.path.join(VERIF, "known_findings.json")

PROPS = [
    "C01", "C02", "C03", "C04", "C05", "C06", "C07", "C08", "C09", "C10", "C11",
    "C12", "C13", "C14", "C15", "C16", "C17", "C18", "C19", "C20",
]

TRUSTED_BASE = [
    "CPython 3.12 `ast` parses /repo exactly as the interpreter does",
    "documented semantics of try/finally, with, threading.local, ast.NodeVisitor, "
    "ast.copy_location, ast.fix_missing_locations, functools.wraps, copyreg",
    "importlib: SourceLoader.exec_module = get_code + exec; get_code = cache lookup/validation "
    "+ source_to_code + cache write",
    "third-party typecheckers and jax.tree_util observe values only via isinstance/flattening and "
    "may raise any exception at any call",
    "synchronous exceptions only (an asynchronous KeyboardInterrupt between two bytecodes is not "
    "modelled; one raised by a call is)",
    "jtsa's own name resolution / CFG construction (unresolved calls are treated as call-outs)",
]


def load_known() -> list:
    if not os.path.exists(KNOWN_FILE):
        return []
    with open(KNOWN_FILE) as f:
        data = json.load(f)
    return data.get("known", [])


def match_known(f: Finding, known: list, functions=None):
    """A finding is a listed one when rule, function and construct agree.  When the listed function
    no longer exists in the analysed tree (`functions` = its qualified names: the code was moved or
    renamed) the same rule and construct in the same module still identify the listed defect."""
    for k in known:
        if k.get("property") != f.prop or k.get("rule") != f.rule:
            continue
        if k.get("construct") and k["construct"] != f.construct:
            continue
        if k.get("function") and k["function"] != f.function:
            moved = functions is not None and k["function"] not in functions and k["function"].split(".")[0] == f.function.split(".")[0]
            if not (moved and k.get("construct")):
                continue
        return k
    return None


def analyse(prop: str, root: str, thorough: bool, overrides=None) -> RuleContext:
    """Pure analysis: returns the filled RuleContext (raises AnalysisError)."""
    model = Model(root, overrides=overrides)
    ctx = RuleContext(prop, model, thorough=thorough)
    mod = importlib.import_module(f"jtsa.rules.{prop.lower()}")
    mod.run(ctx)
    if ctx.errors and not ctx.findings:
        raise AnalysisError("; ".join(ctx.errors[:4]))
    return ctx


def write_evidence(prop, tier, ctx, wall, violations, status, mod=None, extra=None):
    if os.environ.get("JTSA_NO_EVIDENCE"):
        return  # debugging runs against scratch trees must not overwrite the evidence for /repo
    os.makedirs(EVIDENCE_DIR, exist_ok=True)
    seed = int(os.environ.get("VERIF_SEED", "0") or 0)
    obligations = ctx.obligations if ctx else []
    n_ok = sum(1 for o in obligations if o.ok)
    samples = []
    seen_rules = {}
    for o in obligations:
        # a few instances per rule, so a reader sees what they look like
        c = seen_rules.get(o.rule, 0)
        if c < 3 or not o.ok:
            samples.append(o.to_json())
            seen_rules[o.rule] = c + 1
    distinct = len({(o.rule, o.where, o.what) for o in obligations})
    explanation = (getattr(mod, "EXPLANATION", None) or (mod.__doc__ if mod else "") or "").strip()
    cov = {
        "explanation": explanation
        + "  [status of this run: " + status + "]",
        "obligations": len(obligations),
        "discharged": n_ok,
        "evaluations": max(len(obligations), 1),
        "distinct_nontrivial": distinct,
        "rule": "one obligation per rule instance (call site / CFG path set / table row / "
        "branch-table row) found in /repo's current source; distinct = distinct (rule, site, "
        "fact) triples; every instance is non-trivial in that it names a construct of the "
        "repository and the fact checked for it",
        "samples": samples[:80],
        "exhaustive": True,
        "checker_cmd": f"/venv/bin/python -m jtsa check {prop}" + (" --thorough" if tier == "thorough" else ""),
        "trusted_base": TRUSTED_BASE,
        "rules_run": sorted(set(o.rule for o in obligations)),
        "instance_counters": ctx.counters if ctx else {},
        "functions_analysed": sorted(ctx.analysed_functions) if ctx else [],
        "modules_parsed": sorted(m.relpath for m in ctx.model.modules.values()) if ctx else [],
        "notes": ctx.notes if ctx else [],
        "findings": [f.to_json() for f in (ctx.findings if ctx else [])],
    }
    if extra:
        cov.update(extra)
    ev = {
        "property_id": prop,
        "tier": tier,
        "seed": seed,
        "level": "other",
        "coverage": cov,
        "assumptions": TRUSTED_BASE,
        "wall_s": round(wall, 3),
        "violations": violations,
    }
    path = os.path.join(EVIDENCE_DIR, f"{prop}.json")
    tmp = path + ".tmp"
    with open(tmp, "w") as f:
        json.dump(ev, f, indent=1, sort_keys=False)
    os.replace(tmp, path)
    return path


def run_property(prop: str, root: str = "/repo", thorough: bool = False) -> int:
    t0 = time.time()
    tier = "thorough" if thorough else "quick"
    if prop not in PROPS:
        print(f"ANALYSIS-ERROR: property {prop} is not claimed by jtsa (see MANIFEST not_applicable)")
        return 2
    ctx = None
    mod = None
    try:
        mod = importlib.import_module(f"jtsa.rules.{prop.lower()}")
        model = Model(root)
        ctx = RuleContext(prop, model, thorough=thorough)
        mod.run(ctx)
        extra = {}
        if thorough:
            from .selfval import selfvalidate

            from .selfval import corpus_check

            sv = selfvalidate(prop, root)
            extra["self_validation"] = sv
            cc = corpus_check(prop, root)
            extra["independent_seed_corpus"] = cc
            if cc["missed"]:
                sv["failed"].append("independent seeds no longer detected: " + ", ".join(cc["missed"]))
            from .selfval import benign_check

            bc = benign_check(prop, root)
            extra["benign_refactoring_corpus"] = bc
            if bc["false_alarms"]:
                sv["failed"].append("false alarms on behaviour-preserving refactorings: " + "; ".join(bc["false_alarms"][:3]))
            if sv["failed"]:
                raise AnalysisError(
                    "self-validation failed (the checker, not the repository, is broken): "
                    + "; ".join(sv["failed"][:5])
                )
    except AnalysisError as e:
        print(f"ANALYSIS-ERROR property={prop}: {e}")
        write_evidence(prop, tier, ctx, time.time() - t0, 0, f"ANALYSIS-ERROR: {e}", mod)
        return 2
    except Exception as e:
        traceback.print_exc()
        print(f"ANALYSIS-ERROR property={prop}: analyser crashed: {type(e).__name__}: {e}")
        try:
            write_evidence(prop, tier, ctx, time.time() - t0, 0, f"ANALYSIS-ERROR: crash {e}", mod)
        except Exception:
            pass
        return 2

    known = load_known()
    new, listed = [], []
    for f in ctx.findings:
        k = match_known(f, known, set(ctx.model.functions))
        if k is not None:
            listed.append((f, k))
        else:
            new.append(f)
    if ctx.errors and not new:
        msg = "; ".join(ctx.errors[:4])
        print(f"ANALYSIS-ERROR property={prop}: {msg}")
        write_evidence(prop, tier, ctx, time.time() - t0, 0, f"ANALYSIS-ERROR: {msg}", mod)
        return 2
    for e in ctx.errors:
        print(f"ANALYSIS-NOTE property={prop}: a sub-rule could not decide ({e}); other sub-rules report below")
    for f, k in listed:
        print(f"KNOWN-FINDING: property={prop} {k.get('id', '')} [{f.rule}] {f.function}: {k.get('what', f.message)}")
    vdir = os.path.join(EVIDENCE_DIR, "violations")
    for f in new:
        os.makedirs(vdir, exist_ok=True)
        vp = os.path.join(vdir, f"{prop}-{f.digest}.json")
        with open(vp, "w") as fh:
            json.dump({"property": prop, "root": root, "finding": f.to_json()}, fh, indent=1)
        print(f.render())
        print(f"VIOLATION property={prop} replay={vp}")
    n_obl = len(ctx.obligations)
    status = "holds" if not new else f"{len(new)} violation(s)"
    if listed:
        status += f"; {len(listed)} known finding(s)"
    write_evidence(prop, tier, ctx, time.time() - t0, len(new), status, mod, extra)
    print(
        f"{prop} [{tier}]: {status}; {n_obl} obligations over {len(ctx.analysed_functions)} functions, "
        f"rules {sorted(set(o.rule for o in ctx.obligations))} in {time.time() - t0:.2f}s"
    )
    return 1 if new else 0


def replay(path: str, root: str = "/repo") -> int:
    with open(path) as f:
        rec = json.load(f)
    prop = rec["property"]
    key = rec["finding"]["key"]
    try:
        ctx = analyse(prop, root, thorough=False)
    except AnalysisError as e:
        print(f"ANALYSIS-ERROR property={prop}: {e}")
        return 2
    for f in ctx.findings:
        if f.key == key:
            print(f.render())
            print(f"VIOLATION property={prop} replay={path}")
            return 1
    print(f"replay: finding {key!r} is no longer reported on {root}")
    return 0
