"""Effect / ownership classification: every store site of a function classified by the
root of its target.

Store sites: `x.a = v`, `x[k] = v`, `del x.a`, `del x[k]`, augmented assignment to those,
`global`-declared name assignment, mutator method calls (`append/insert/pop/remove/update/
clear/setdefault/add/extend/...`) and `setattr/delattr`.

Root kinds:
  local     a name bound in this activation to a fresh object (display, call result, ...)
  param     a parameter of this function (the caller's object)
  self      first parameter of a method
  freevar   variable of an enclosing function's activation (closure cell)
  tl        an attribute of a module-level threading.local() (per-thread)
  modvar    a module-level name of the package (shared by all threads)
  class     a class object of the package / class-level attribute (shared)
  global    assignment to a `global`-declared name (shared)
  ext       an object of another module, e.g. sys.meta_path (shared)
  unknown
"""
from __future__ import annotations

import ast
from typing import Optional

from .model import ClassInfo, FuncInfo, Model, ModuleInfo, walk_scope, walk_with_lambdas
from .roles import Roles

MUTATORS = Roles.MUTATORS | {"add_note", "register", "move_to_end", "appendleft", "popleft"}
# method names that mutate their receiver only for builtin containers; on arbitrary objects
# we still report them (conservative) but rules may filter by root kind


class Store:
    __slots__ = ("fn", "node", "kind", "root", "root_name", "attr", "how")

    def __init__(self, fn, node, kind, root_name, attr, how):
        self.fn, self.node, self.kind, self.root_name, self.attr, self.how = fn, node, kind, root_name, attr, how

    def __repr__(self):
        return f"<Store {self.kind}:{self.root_name}.{self.attr} via {self.how} in {self.fn.qualname}>"


def _chain(e):
    """(root_name_node|None, [attrs/'[]' ...]) of an Attribute/Subscript chain."""
    chain = []
    x = e
    while True:
        if isinstance(x, ast.Attribute):
            chain.append(x.attr)
            x = x.value
        elif isinstance(x, ast.Subscript):
            chain.append("[]")
            x = x.value
        else:
            break
    chain.reverse()
    return (x if isinstance(x, ast.Name) else None), chain, x


class Effects:
    def __init__(self, model: Model, roles: Roles):
        self.m = model
        self.r = roles
        self._cache: dict = {}

    def root_kind(self, fn: FuncInfo, name: str, depth: int = 0, at=None):
        """Classify a name used as the root of a store target."""
        b = self.m.resolve_name(fn, name)
        if b.kind == "param":
            # first parameter of a method
            if fn.cls is not None and fn.params and fn.params[0] == name:
                is_cm = any(isinstance(d, ast.Name) and d.id == "classmethod" for d in fn.decorators)
                if self.m.is_metaclass(fn.cls) or is_cm or fn.name in ("__init_subclass__", "__class_getitem__"):
                    # the receiver is a class object: shared by every thread
                    return ("class", f"<instance of {fn.cls.qualname}>" if self.m.is_metaclass(fn.cls) else fn.cls.qualname)
                inst = self.module_level_instances(fn.cls)
                if inst and "threading.local" in self.m.external_bases(fn.cls) and self.r is not None and self.r.local_subclass_is_confined(fn.cls) is None:
                    # the class is a threading.local subclass whose attributes are all per-thread: `self.x = ..` in its methods is a
                    # store on the thread's own copy
                    return ("tl", f"{inst[0]}")
                if inst and fn.name not in ("__init__", "__new__", "__init_subclass__"):
                    # the class has an instance bound at module level: what its methods store on `self` is, for that
                    # instance, state shared by every thread
                    return ("modvar", f"{inst[0]} (module-level instance of {fn.cls.name})")
                return ("self", name)
            return ("param", name)
        if b.kind == "freevar":
            return ("freevar", name)
        if b.kind == "local":
            if name in fn.declared_global():
                return ("global", name)
            # one-level alias tracking
            if depth < 2:
                srcs = []
                for n in walk_scope(fn.node):
                    if isinstance(n, ast.Assign):
                        for t in n.targets:
                            if isinstance(t, ast.Name) and t.id == name:
                                srcs.append(n.value)
                            # chained: a = X.attr = []  -> a aliases X.attr
                            elif isinstance(t, (ast.Attribute, ast.Subscript)) and any(
                                isinstance(t2, ast.Name) and t2.id == name for t2 in n.targets
                            ):
                                srcs.append(t)
                    elif isinstance(n, (ast.For, ast.AsyncFor)):
                        for x in ast.walk(n.target):
                            if isinstance(x, ast.Name) and x.id == name:
                                srcs.append(n.iter)
                    elif isinstance(n, (ast.With, ast.AsyncWith)):
                        for it in n.items:
                            if it.optional_vars is not None:
                                for x in ast.walk(it.optional_vars):
                                    if isinstance(x, ast.Name) and x.id == name:
                                        srcs.append(it.context_expr)
                kinds = set()
                for s in srcs:
                    if isinstance(s, ast.Call):
                        kinds |= self.returned_kinds(fn, s, depth + 1)
                        continue
                    rn, ch, base = _chain(s)
                    if rn is not None and (ch or isinstance(s, ast.Name)) and rn.id != name:
                        tl = self.r.tl_of_expr(fn, s)
                        if tl is not None:
                            kinds.add(("tl", tl[0][1]))
                            continue
                        k = self.root_kind(fn, rn.id, depth + 1)
                        if k[0] in ("modvar", "class", "ext", "tl", "global"):
                            kinds.add(k)
                        elif k[0] in ("param", "self", "freevar") and ch:
                            kinds.add(k)
                shared = [k for k in kinds if k[0] in ("modvar", "class", "ext", "global")]
                if shared:
                    return shared[0]
                tls = [k for k in kinds if k[0] == "tl"]
                if tls:
                    return tls[0]
                via = [k for k in kinds if k[0] in ("param", "self", "freevar")]
                if via:
                    return via[0]
            return ("local", name)
        if b.kind == "modvar":
            mod, nm = b.target
            if (mod.short, nm) in self.r.thread_locals:
                return ("tl", nm)
            return ("modvar", f"{mod.short}.{nm}")
        if b.kind == "class":
            return ("class", b.target.qualname)
        if b.kind == "classattr":
            return ("class", f"{b.target[0].qualname}.{b.target[1]}")
        if b.kind in ("ext", "module", "builtin"):
            t = b.target.dotted if isinstance(b.target, ModuleInfo) else b.target
            return ("ext", t)
        if b.kind == "func":
            return ("class", b.target.qualname)  # function object attribute (shared)
        return ("unknown", name)

    def module_level_instances(self, c: ClassInfo) -> list:
        cache = self.__dict__.setdefault("_mli", {})
        if c.qualname in cache:
            return cache[c.qualname]
        out = []
        for mod in self.m.modules.values():
            if mod.short.startswith("_typeguard"):
                continue
            for name, vals in mod.assigns.items():
                for v in vals:
                    if isinstance(v, ast.Call) and isinstance(v.func, (ast.Name, ast.Attribute)):
                        t = self.m.resolve_expr_static(mod, v.func)
                        if t is c:
                            out.append(f"{mod.short}.{name}")
        cache[c.qualname] = out
        return out

    def contextvar_of(self, fn, call: ast.Call):
        """`X.get()` where X is a module-level `contextvars.ContextVar(...)`: (qualified name, default node|None)."""
        f = call.func
        if not (isinstance(f, ast.Attribute) and f.attr == "get" and isinstance(f.value, ast.Name)):
            return None
        b = self.m.resolve_name(fn, f.value.id)
        if b.kind != "modvar":
            return None
        mod, nm = b.target
        vals = [v for v in mod.assigns.get(nm, []) if v is not None]
        if len(vals) != 1 or not isinstance(vals[0], ast.Call):
            return None
        d = vals[0].func
        txt = ast.unparse(d)
        head = mod.imports.get(txt.split(".")[0], "")
        full = ".".join([head] + txt.split(".")[1:]) if head else txt
        if not full.endswith("ContextVar") or "contextvars" not in full:
            return None
        default = next((k.value for k in vals[0].keywords if k.arg == "default"), None)
        return (f"{mod.short}.{nm}", default)

    def returned_kinds(self, fn, call: ast.Call, depth: int = 0) -> set:
        """Root kinds of the objects an internal function can return (each `return <name/attr chain>`
        classified in the callee): {('modvar', '_storage._toplevel_state'), ('tl', ..), ('local', ..)}."""
        if depth > 2:
            return set()
        t = self.m.resolve_call(fn, call)
        if t.kind != "func":
            return set()
        h = t.target
        out = set()
        rets = []
        for n in walk_scope(h.node):
            if isinstance(n, ast.Return) and n.value is not None:
                stack = [n.value]
                while stack:  # `a if c else b`, `a or b`: every alternative may be what is returned
                    v = stack.pop()
                    if isinstance(v, ast.IfExp):
                        stack += [v.body, v.orelse]
                    elif isinstance(v, ast.BoolOp):
                        stack += list(v.values)
                    else:
                        rets.append(v)
        for v in rets:
            if True:
                if isinstance(v, ast.Call):
                    out |= self.returned_kinds(h, v, depth + 1)
                    continue
                rn, ch, base = _chain(v)
                if rn is None:
                    continue
                tl = self.r.tl_of_expr(h, v, self.r.local_aliases(h))
                if tl is not None:
                    out.add(("tl", tl[0][1]))
                    continue
                out.add(self.root_kind(h, rn.id, depth + 1))
        return out

    def stores(self, fn: FuncInfo) -> list:
        if fn.qualname in self._cache:
            return self._cache[fn.qualname]
        out = []

        def add(node, target_expr, how):
            rn, chain, base = _chain(target_expr)
            if rn is None and isinstance(base, (ast.IfExp, ast.BoolOp)):
                # `(a if c else b).x = v` / `(a or b).x = v` (the shape an inlined selector helper has): the store can go
                # to either object
                alts = [base.body, base.orelse] if isinstance(base, ast.IfExp) else list(base.values)
                for alt in alts:
                    rebuilt = alt
                    for link in chain:
                        rebuilt = ast.Subscript(value=rebuilt, slice=ast.Constant(value=0), ctx=ast.Load()) if link == "[]" else ast.Attribute(value=rebuilt, attr=link, ctx=ast.Load())
                    add(node, rebuilt, how)
                return
            if rn is None:
                if isinstance(base, ast.Call):
                    cv = self.contextvar_of(fn, base)
                    if cv is not None:
                        name_, default = cv
                        mutable = default is not None and not isinstance(default, ast.Constant) and not (isinstance(default, ast.Tuple) and not default.elts)
                        if mutable:
                            # ContextVar(default=[...]): `.get()` hands every thread the one default object
                            out.append(Store(fn, node, "modvar", f"{name_} (the shared `default=` object of a ContextVar)", ".".join(chain), how))
                        else:
                            out.append(Store(fn, node, "tl", name_, ".".join(chain), how))
                        return
                    shared = [k for k in self.returned_kinds(fn, base, 0) if k[0] in ("modvar", "class", "ext", "global")]
                    if shared:
                        # the callee can hand out a shared (module-level / class-level) object: the store goes there
                        out.append(Store(fn, node, shared[0][0], shared[0][1], ".".join(chain), how))
                        return
                    out.append(Store(fn, node, "call-result", ast.unparse(base)[:40], ".".join(chain), how))
                else:
                    out.append(Store(fn, node, "unknown", "?", ".".join(chain), how))
                return
            kind, rname = self.root_kind(fn, rn.id)
            if kind != "tl":
                # a threading.local() held in an attribute of an object (`self._local.stack`)
                tl = self.r.tl_of_expr(fn, target_expr)
                if tl is not None and tl[1]:
                    kind, rname = "tl", tl[0][1]
            out.append(Store(fn, node, kind, rname, ".".join(chain), how))

        gl = fn.declared_global()
        for n in walk_with_lambdas(fn.node):
            if isinstance(n, (ast.Attribute, ast.Subscript)) and isinstance(n.ctx, (ast.Store, ast.Del)):
                add(n, n, "store" if isinstance(n.ctx, ast.Store) else "del")
            elif isinstance(n, ast.AugAssign) and isinstance(n.target, (ast.Attribute, ast.Subscript)):
                pass  # the target node itself has Store ctx and is visited
            elif isinstance(n, ast.Name) and isinstance(n.ctx, (ast.Store, ast.Del)) and n.id in gl:
                out.append(Store(fn, n, "global", n.id, "", "global-assign"))
            elif isinstance(n, ast.Call):
                f = n.func
                if isinstance(f, ast.Attribute) and f.attr in MUTATORS:
                    t = self.m.resolve_call(fn, n)
                    if t.kind == "func":
                        continue  # a method of an internal class that merely shares a mutator's name: its own stores are analysed
                    add(n, f.value, "call:" + f.attr)
                elif isinstance(f, ast.Name) and f.id in ("setattr", "delattr") and n.args:
                    add(n, n.args[0], f.id)
        self._cache[fn.qualname] = out
        return out
