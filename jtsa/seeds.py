"""Catalogue of seeded defect variants (must be reported) and benign twins (must be silent).

SEEDS[id] = (property, [(file, old_text, new_text), ...], expected_rule_prefix)
TWINS[id] = (property, [(file, old_text, new_text), ...])
All edits are applied in memory to the current /repo sources by selfval.py.
"""
A = "jaxtyping/_array_types.py"
P = "jaxtyping/_pytree_type.py"
S = "jaxtyping/_storage.py"
D = "jaxtyping/_decorator.py"
H = "jaxtyping/_import_hook.py"
C = "jaxtyping/_config.py"
I = "jaxtyping/__init__.py"
X = "jaxtyping/_ipython_extension.py"
T = "jaxtyping/_pytest_plugin.py"
TG = "jaxtyping/_typeguard/__init__.py"
DOC = "docs/api/array.md"

SEEDS = {}
TWINS = {}

NEW_WRAPPER_TRY = """                try:
                    # Put this in a separate frame to make debugging easier, without
                    # just always ending up on the `pop_shape_memo` line below.
                    return wrapped_fn_impl(args, kwargs, bound, memos)
                finally:
                    pop_shape_memo()"""

# ------------------------------------------------------------------------- C05
SEEDS["C05_pop_not_on_baseexception"] = ("C05", [(D, NEW_WRAPPER_TRY, """                try:
                    out = wrapped_fn_impl(args, kwargs, bound, memos)
                except Exception:
                    pop_shape_memo()
                    raise
                pop_shape_memo()
                return out""")], "C05.1")
SEEDS["C05_context_exit_conditional"] = ("C05", [(D, """    def __exit__(self, exc_type, exc_value, exc_tb):
        pop_shape_memo()""", """    def __exit__(self, exc_type, exc_value, exc_tb):
        if exc_type is None:
            pop_shape_memo()""")], "C05.2")
SEEDS["C05_shared_default_memos"] = ("C05", [(S, """        single_memo = {}
        variadic_memo = {}
        pytree_memo = {}
        arguments = {}
    return""", """        single_memo = _default_single
        variadic_memo = {}
        pytree_memo = {}
        arguments = {}
    return"""), (S, "_shape_storage = threading.local()", "_shape_storage = threading.local()\n_default_single = {}")], "C05.4")
SEEDS["C05_bind_after_push"] = ("C05", [(D, """                bound = param_signature.bind(*args, **kwargs)
                bound.apply_defaults()

                memos = push_shape_memo(bound.arguments)
                try:""", """                memos = push_shape_memo({})
                bound = param_signature.bind(*args, **kwargs)
                bound.apply_defaults()
                memos[3].update(bound.arguments)
                try:""")], "C05.1")
SEEDS["C05_arguments_not_copied"] = ("C05", [(S, "memos = ({}, {}, {}, arguments.copy())", "memos = ({}, {}, {}, arguments)")], "C05.4")
SEEDS["C05_old_wrapper_pop_in_else"] = ("C05", [(D, """                    raise
                finally:
                    pop_shape_memo()
""", """                    raise
                else:
                    pop_shape_memo()
""")], "C05.1")
SEEDS["C05_call_between_push_and_try"] = ("C05", [(D, """                memos = push_shape_memo(bound.arguments)
                try:
                    # Put this""", """                memos = push_shape_memo(bound.arguments)
                _ = shape_str(memos)
                try:
                    # Put this""")], "C05.1")
SEEDS["C05_enter_pushes_twice"] = ("C05", [(D, """    def __enter__(self):
        push_shape_memo({})""", """    def __enter__(self):
        push_shape_memo({})
        if config.jaxtyping_remove_typechecker_stack:
            push_shape_memo({})""")], "C05.2")
SEEDS["C05_exit_swallows"] = ("C05", [(D, """    def __exit__(self, exc_type, exc_value, exc_tb):
        pop_shape_memo()""", """    def __exit__(self, exc_type, exc_value, exc_tb):
        pop_shape_memo()
        return True""")], "C05.2")
SEEDS["C05_async_wrapper_awaits_inside_context"] = ("C05", [(D, """                bound = signature.bind(*args, **kwargs)
                bound.apply_defaults()
                memos = push_shape_memo(bound.arguments)
                try:
                    return fn(*args, **kwargs)""", """                bound = signature.bind(*args, **kwargs)
                bound.apply_defaults()
                memos = push_shape_memo(bound.arguments)
                try:
                    yield from fn(*args, **kwargs)""")], "C05.3")
SEEDS["C05_pop_first_element"] = ("C05", [(S, "_shape_storage.memo_stack.pop()", "_shape_storage.memo_stack.pop(0)")], "C05.4")
SEEDS["C05_foreign_stack_mutation"] = ("C05", [(S, """def shape_str(memos) -> str:""", """def _reset():
    _shape_storage.memo_stack.clear()


def shape_str(memos) -> str:""")], "C05.4")
SEEDS["C05_get_reads_bottom"] = ("C05", [(S, """        single_memo, variadic_memo, pytree_memo, arguments = _shape_storage.memo_stack[
            -1
        ]""", """        single_memo, variadic_memo, pytree_memo, arguments = _shape_storage.memo_stack[
            0
        ]""")], "C05.4")

TWINS["C05_twin_renamed_locals"] = ("C05", [(D, NEW_WRAPPER_TRY, """                try:
                    result = wrapped_fn_impl(args, kwargs, bound, memos)
                    return result
                finally:
                    pop_shape_memo()""")])
TWINS["C05_twin_renested_try"] = ("C05", [(D, NEW_WRAPPER_TRY, """                try:
                    try:
                        return wrapped_fn_impl(args, kwargs, bound, memos)
                    except Exception:
                        raise
                finally:
                    pop_shape_memo()""")])
TWINS["C05_twin_with_context_class"] = ("C05", [(D, """                memos = push_shape_memo(bound.arguments)
                try:
                    # Put this in a separate frame to make debugging easier, without
                    # just always ending up on the `pop_shape_memo` line below.
                    return wrapped_fn_impl(args, kwargs, bound, memos)
                finally:
                    pop_shape_memo()""", """                with _BoundContext(bound.arguments) as memos:
                    return wrapped_fn_impl(args, kwargs, bound, memos)"""), (D, """class _JaxtypingContext:""", """class _BoundContext:
    def __init__(self, arguments):
        self.arguments = arguments

    def __enter__(self):
        return push_shape_memo(self.arguments)

    def __exit__(self, exc_type, exc_value, exc_tb):
        pop_shape_memo()
        return False


class _JaxtypingContext:""")])
TWINS["C05_twin_pop_explicit_last"] = ("C05", [(S, "_shape_storage.memo_stack.pop()", "_shape_storage.memo_stack.pop(-1)")])
TWINS["C05_twin_dict_call"] = ("C05", [(S, "memos = ({}, {}, {}, arguments.copy())", "memos = (dict(), dict(), dict(), dict(arguments))")])

# ------------------------------------------------------------------------- C04
ARR_FAIL = """        else:
            set_shape_memo(
                single_memo_bak, variadic_memo_bak, pytree_memo_bak, arg_memo_bak
            )
            return check"""
PT_FAIL = """        else:
            set_shape_memo(
                single_memo_bak, variadic_memo_bak, pytree_memo_bak, arg_memo_bak
            )
            return False"""
SEEDS["C04_array_no_restore_on_fail"] = ("C04", [(A, ARR_FAIL, """        else:
            return check""")], "C04.1")
SEEDS["C04_pytree_no_restore_on_fail"] = ("C04", [(P, PT_FAIL, """        else:
            return False""")], "C04.1")
SEEDS["C04_alias_backup"] = ("C04", [(A, "        single_memo_bak = single_memo.copy()\n        variadic_memo_bak = variadic_memo.copy()\n        pytree_memo_bak = pytree_memo.copy()\n        arg_memo_bak = arg_memo.copy()\n        try:\n            check",
                                      "        single_memo_bak = single_memo\n        variadic_memo_bak = variadic_memo.copy()\n        pytree_memo_bak = pytree_memo.copy()\n        arg_memo_bak = arg_memo.copy()\n        try:\n            check")], "C04.2")
SEEDS["C04_swapped_restore_args"] = ("C04", [(A, ARR_FAIL, """        else:
            set_shape_memo(
                single_memo_bak, variadic_memo_bak, arg_memo_bak, pytree_memo_bak
            )
            return check""")], "C04.3")
SEEDS["C04_array_exception_only"] = ("C04", [(A, """            check = cls._check_shape(obj, single_memo, variadic_memo, arg_memo)
        except BaseException:""", """            check = cls._check_shape(obj, single_memo, variadic_memo, arg_memo)
        except Exception:""")], "C04.1")
SEEDS["C04_pytree_exception_only"] = ("C04", [(P, """            out = cls._check(obj, pytree_memo)
        except BaseException:""", """            out = cls._check(obj, pytree_memo)
        except Exception:""")], "C04.1")
SEEDS["C04_pytree_annotationerror_passthrough"] = ("C04", [(P, """            out = cls._check(obj, pytree_memo)
        except BaseException:""", """            out = cls._check(obj, pytree_memo)
        except AnnotationError:
            raise
        except BaseException:""")], "C04.1")
SEEDS["C04_snapshot_after_call"] = ("C04", [(P, """        pytree_memo_bak = pytree_memo.copy()
        arg_memo_bak = arg_memo.copy()
        try:
            out = cls._check(obj, pytree_memo)""", """        arg_memo_bak = arg_memo.copy()
        try:
            out = cls._check(obj, pytree_memo)
            pytree_memo_bak = pytree_memo.copy()""")], "C04.2")
SEEDS["C04_set_bottom_of_stack"] = ("C04", [(S, """        for memo, new_memo in zip(_shape_storage.memo_stack[-1], new_memos):""", """        for memo, new_memo in zip(_shape_storage.memo_stack[0], new_memos):""")], "C04.4")
SEEDS["C04_set_update_without_clear"] = ("C04", [(S, """                memo.clear()
                memo.update(new_memo)""", """                memo.update(new_memo)""")], "C04.4")
SEEDS["C04_set_unguarded"] = ("C04", [(S, """    if _has_shape_memo():
        # Restore in-place""", """    if True:
        # Restore in-place""")], "C04.4")
SEEDS["C04_set_store_order"] = ("C04", [(S, "new_memos = (single_memo, variadic_memo, pytree_memo, arg_memo)", "new_memos = (single_memo, pytree_memo, variadic_memo, arg_memo)")], "C04.3")
SEEDS["C04_restore_on_success"] = ("C04", [(A, """        if check == "":
            return check
        else:""", """        if check == "":
            set_shape_memo(
                single_memo_bak, variadic_memo_bak, pytree_memo_bak, arg_memo_bak
            )
            return check
        else:""")], "C04.1")
SEEDS["C04_inverted_test"] = ("C04", [(P, """        if out:
            return True
        else:""" , """        if not out:
            return False
        else:""")], "C04.1")
SEEDS["C04_check_shape_args_swapped"] = ("C04", [(A, "check = cls._check_shape(obj, single_memo, variadic_memo, arg_memo)", "check = cls._check_shape(obj, variadic_memo, single_memo, arg_memo)")], "C04.3")
SEEDS["C04_restore_live_memo"] = ("C04", [(P, PT_FAIL, """        else:
            set_shape_memo(
                single_memo, variadic_memo_bak, pytree_memo_bak, arg_memo_bak
            )
            return False""")], "C04.2")

TWINS["C04_twin_flipped_if"] = ("C04", [(A, """        if check == "":
            return check
        else:
            set_shape_memo(
                single_memo_bak, variadic_memo_bak, pytree_memo_bak, arg_memo_bak
            )
            return check""", """        if check != "":
            set_shape_memo(
                single_memo_bak, variadic_memo_bak, pytree_memo_bak, arg_memo_bak
            )
            return check
        return \"\"""")])
TWINS["C04_twin_dict_copy"] = ("C04", [(P, "        single_memo_bak = single_memo.copy()", "        single_memo_bak = dict(single_memo)")])
TWINS["C04_twin_try_finally_flag"] = ("C04", [(P, """        try:
            out = cls._check(obj, pytree_memo)
        except BaseException:
            set_shape_memo(
                single_memo_bak, variadic_memo_bak, pytree_memo_bak, arg_memo_bak
            )
            raise
        if out:
            return True
        else:
            set_shape_memo(
                single_memo_bak, variadic_memo_bak, pytree_memo_bak, arg_memo_bak
            )
            return False""", """        out = False
        try:
            out = cls._check(obj, pytree_memo)
        finally:
            if not out:
                set_shape_memo(
                    single_memo_bak, variadic_memo_bak, pytree_memo_bak, arg_memo_bak
                )
        return out""")])

# ------------------------------------------------------------------------- C06
SEEDS["C06_plain_object_storage"] = ("C06", [(S, "_treepath_storage = threading.local()", "class _Plain:\n    pass\n\n\n_treepath_storage = _Plain()")], "C06")
SEEDS["C06_module_level_stack"] = ("C06", [(S, """    try:
        memo_stack = _shape_storage.memo_stack
    except AttributeError:
        # Can't be done when `_stack_storage` is created for reasons I forget.
        memo_stack = _shape_storage.memo_stack = []""", """    memo_stack = _memo_stack"""), (S, "_shape_storage = threading.local()", "_shape_storage = threading.local()\n_memo_stack = []")], "C06.2")
SEEDS["C06_flag_in_module_global"] = ("C06", [(S, """def set_treeflatten_memo():
    _treeflatten_storage.value = True""", """_flattening = False


def set_treeflatten_memo():
    global _flattening
    _flattening = True
    _treeflatten_storage.value = True""")], "C06")
# (a memo of a pure function of its key is not a violation: the twin; keyed by an id() it is)
SEEDS["C06_dtype_name_cache_keyed_by_dtype_class"] = ("C06", [(A, """        if hasattr(obj.dtype, "type") and hasattr(obj.dtype.type, "__name__"):
            # JAX, numpy
            dtype = obj.dtype.type.__name__""", """        if type(obj.dtype) in _dtype_name_cache:
            dtype = _dtype_name_cache[type(obj.dtype)]
        elif hasattr(obj.dtype, "type") and hasattr(obj.dtype.type, "__name__"):
            # JAX, numpy
            dtype = obj.dtype.type.__name__
            _dtype_name_cache[type(obj.dtype)] = dtype"""), (A, "_not_made = object()", "_not_made = object()\n_dtype_name_cache = {}")], "ANALYSIS-ERROR")  # the name is computed from obj.dtype, the key is only its class: not decidable here
SEEDS["C06_dtype_name_cache_keyed_by_id"] = ("C06", [(A, """        if hasattr(obj.dtype, "type") and hasattr(obj.dtype.type, "__name__"):
            # JAX, numpy
            dtype = obj.dtype.type.__name__""", """        if id(obj.dtype) in _dtype_name_cache:
            dtype = _dtype_name_cache[id(obj.dtype)]
        elif hasattr(obj.dtype, "type") and hasattr(obj.dtype.type, "__name__"):
            # JAX, numpy
            dtype = obj.dtype.type.__name__
            _dtype_name_cache[id(obj.dtype)] = dtype"""), (A, "_not_made = object()", "_not_made = object()\n_dtype_name_cache = {}")], "C06.2")
SEEDS["C06_lru_cache_on_check_dims"] = ("C06", [(A, """def _dtype_is_numpy_struct_array(dtype):""", """@ft.lru_cache(maxsize=None)
def _dtype_is_numpy_struct_array(dtype):""")], "ANALYSIS-ERROR")
SEEDS["C06_lru_cache_on_context_dependent_check"] = ("C06", [(A, """    def _check_shape(
        cls,""", """    @ft.lru_cache(maxsize=None)
    def _check_shape(
        cls,""")], "C06.4")
SEEDS["C06_class_level_last_error"] = ("C06", [(A, """        if check == "":
            return check
        else:""", """        cls._last_check = check
        if check == "":
            return check
        else:""")], "C06.2")
SEEDS["C06_shared_scratch_dict_passed"] = ("C06", [(A, "check = cls._check_shape(obj, single_memo, variadic_memo, arg_memo)", "check = cls._check_shape(obj, single_memo, _scratch_variadic, arg_memo)"), (A, "_not_made = object()", "_not_made = object()\n_scratch_variadic = {}")], "C06.3")
TWINS["C06_twin_local_cache"] = ("C06", [(A, """        if hasattr(obj.dtype, "type") and hasattr(obj.dtype.type, "__name__"):
            # JAX, numpy
            dtype = obj.dtype.type.__name__""", """        scratch = {}
        scratch["t"] = 1
        if hasattr(obj.dtype, "type") and hasattr(obj.dtype.type, "__name__"):
            # JAX, numpy
            dtype = obj.dtype.type.__name__""")])
TWINS["C06_twin_new_thread_local"] = ("C06", [(S, "_treeflatten_storage = threading.local()", "_treeflatten_storage = threading.local()\n_extra_storage = threading.local()\n\n\ndef _touch_extra():\n    _extra_storage.value = 1\n")])

# ------------------------------------------------------------------------- C12
FLAT_REGION = """        was_flattening = get_treeflatten_memo()
        set_treeflatten_memo()
        try:
            leaves, structure = jtu.tree_flatten(obj, is_leaf=is_flatten_leaftype)
        finally:
            if not was_flattening:
                clear_treeflatten_memo()
"""
SEEDS["C12_flatten_flag_leak_on_baseexception"] = ("C12", [(P, FLAT_REGION, """        was_flattening = get_treeflatten_memo()
        set_treeflatten_memo()
        try:
            leaves, structure = jtu.tree_flatten(obj, is_leaf=is_flatten_leaftype)
        except Exception:
            if not was_flattening:
                clear_treeflatten_memo()
            raise
        if not was_flattening:
            clear_treeflatten_memo()
""")], "C12.1")
SEEDS["C12_flatten_flag_constant_reset"] = ("C12", [(P, FLAT_REGION, """        set_treeflatten_memo()
        try:
            leaves, structure = jtu.tree_flatten(obj, is_leaf=is_flatten_leaftype)
        finally:
            clear_treeflatten_memo()
""")], "C12.1")
SEEDS["C12_flatten_flag_never_cleared_on_error"] = ("C12", [(P, FLAT_REGION, """        was_flattening = get_treeflatten_memo()
        set_treeflatten_memo()
        leaves, structure = jtu.tree_flatten(obj, is_leaf=is_flatten_leaftype)
        if not was_flattening:
            clear_treeflatten_memo()
""")], "C12.1")
SEEDS["C12_flatten_restore_inverted"] = ("C12", [(P, """            if not was_flattening:
                clear_treeflatten_memo()
""", """            if was_flattening:
                clear_treeflatten_memo()
""")], "C12.1")
LABEL_REGION = """                set_treepath_memo(leaf_index, cls.structure)
                try:
                    if not is_check_leaftype(leaf):
                        return False
                finally:
                    clear_treepath_memo()
"""
SEEDS["C12_label_cleared_only_on_normal_path"] = ("C12", [(P, LABEL_REGION, """                set_treepath_memo(leaf_index, cls.structure)
                if not is_check_leaftype(leaf):
                    clear_treepath_memo()
                    return False
                clear_treepath_memo()
""")], "C12.1")
SEEDS["C12_label_leak_on_false"] = ("C12", [(P, LABEL_REGION, """                set_treepath_memo(leaf_index, cls.structure)
                try:
                    ok = is_check_leaftype(leaf)
                except BaseException:
                    clear_treepath_memo()
                    raise
                if not ok:
                    return False
                clear_treepath_memo()
""")], "C12.1")
SEEDS["C12_structureless_clears_label"] = ("C12", [(P, """                if not is_check_leaftype(leaf):
                    return False
            else:""", """                if not is_check_leaftype(leaf):
                    clear_treepath_memo()
                    return False
            else:""")], "C12.1")
SEEDS["C12_annotation_mutated_at_check"] = ("C12", [(A, """        if cls.index_variadic is None:
            if len(obj.shape) != len(cls.dims):""", """        if cls.index_variadic is None:
            cls.dims = tuple(cls.dims)
            if len(obj.shape) != len(cls.dims):""")], "C12.3")
SEEDS["C12_setattr_transparent_elsewhere"] = ("C12", [(D, """                    if inspect.isclass(ann) and issubclass(ann, AbstractArray):
                        ann.make_transparent()""", """                    if inspect.isclass(ann) and issubclass(ann, AbstractArray):
                        setattr(ann, "_skip_instancecheck", True)""")], "C12.3")
SEEDS["C12_name_format_changes_dims"] = ("C12", [(A, """    elif _array_name_format == "array":
        name = type_str""", """    elif _array_name_format == "array":
        name = type_str
        dim_str = \"\"""")], "C12.5")
SEEDS["C12_install_hook_purges_sys_modules"] = ("C12", [(H, """    wrapped_typechecker = Typechecker(typechecker)""", """    for _name in modules:
        sys.modules.pop(_name, None)
    wrapped_typechecker = Typechecker(typechecker)""")], "C12.4")
SEEDS["C12_memoised_struct_test"] = ("C12", [(A, """def _dtype_is_numpy_struct_array(dtype):""", """@ft.lru_cache(maxsize=None)
def _dtype_is_numpy_struct_array(dtype):""")], "ANALYSIS-ERROR")  # a pure function memoised: harmless if its argument is hashable -- no verdict
SEEDS["C12_pop_skipped_on_baseexception"] = ("C12", [(D, NEW_WRAPPER_TRY, """                try:
                    out = wrapped_fn_impl(args, kwargs, bound, memos)
                except Exception:
                    pop_shape_memo()
                    raise
                pop_shape_memo()
                return out""")], "C12.2")

TWINS["C12_twin_set_inside_try"] = ("C12", [(P, FLAT_REGION, """        was_flattening = get_treeflatten_memo()
        try:
            set_treeflatten_memo()
            leaves, structure = jtu.tree_flatten(obj, is_leaf=is_flatten_leaftype)
        finally:
            if not was_flattening:
                clear_treeflatten_memo()
""")])
TWINS["C12_twin_positive_saved_test"] = ("C12", [(P, """            if not was_flattening:
                clear_treeflatten_memo()
""", """            if was_flattening:
                pass
            else:
                clear_treeflatten_memo()
""")])
SEEDS["C12_guarded_label_clears_when_no_leaf"] = ("C12", [(P, """        for leaf_index, leaf in enumerate(leaves):
            if cls.structure is None:
                # No `?` annotations can refer to us, so leave the treepath memo alone: it
                # may belong to a structured `PyTree[..., "T"]` that we are nested inside.
                if not is_check_leaftype(leaf):
                    return False
            else:
                set_treepath_memo(leaf_index, cls.structure)
                try:
                    if not is_check_leaftype(leaf):
                        return False
                finally:
                    clear_treepath_memo()
        return True
""", """        try:
            for leaf_index, leaf in enumerate(leaves):
                if cls.structure is not None:
                    set_treepath_memo(leaf_index, cls.structure)
                if not is_check_leaftype(leaf):
                    return False
                if cls.structure is not None:
                    clear_treepath_memo()
        finally:
            if cls.structure is not None:
                clear_treepath_memo()
        return True
""")], "C12.1")

# ------------------------------------------------------------------------- C16
SEEDS["C16_variadic_ignores_treepath"] = ("C16", [(A, """                if variadic_dim.treepath:
                    name = get_treepath_memo() + variadic_dim.name
                else:
                    name = variadic_dim.name""", """                name = variadic_dim.name""")], "C16.2")
SEEDS["C16_single_key_bare_name"] = ("C16", [(A, """                cls_size = single_memo[name]
            except KeyError:
                single_memo[name] = obj_size""", """                cls_size = single_memo[cls_dim.name]
            except KeyError:
                single_memo[cls_dim.name] = obj_size""")], "C16.2")
SEEDS["C16_treepath_polarity_swapped"] = ("C16", [(A, """            if cls_dim.treepath:
                name = get_treepath_memo() + cls_dim.name
            else:
                name = cls_dim.name""", """            if not cls_dim.treepath:
                name = get_treepath_memo() + cls_dim.name
            else:
                name = cls_dim.name""")], "C16.2")
SEEDS["C16_label_without_index"] = ("C16", [(S, """        _treepath_storage.value = f"(Leaf {index} in structure {structure}) \"""", """        _treepath_storage.value = f"(Leaf in structure {structure}) \"""")], "C16.3")
SEEDS["C16_label_identifier_like"] = ("C16", [(S, """        _treepath_storage.value = f"(Leaf {index} in structure {structure}) \"""", """        _treepath_storage.value = f"leaf{index}_{structure}_\""""), (S, """        _treepath_storage.value = f"~~delete~~({structure}) \"""", """        _treepath_storage.value = f"delete_{structure}_\"""")], "C16.3")
SEEDS["C16_label_constant_index"] = ("C16", [(P, "set_treepath_memo(leaf_index, cls.structure)", "set_treepath_memo(0, cls.structure)")], "C16.3")
SEEDS["C16_get_unset_returns_empty"] = ("C16", [(S, """    if not hasattr(_treepath_storage, "value") or _treepath_storage.value is None:
        raise AnnotationError(
            "Cannot use `?` annotations, e.g. `Shaped[Array, '?foo']`, except "
            "when contained with structured `PyTree` annotations, e.g. "
            "`PyTree[Shaped[Array, '?foo'], 'T']`."
        )
    return _treepath_storage.value""", """    if not hasattr(_treepath_storage, "value") or _treepath_storage.value is None:
        return \"\"
    return _treepath_storage.value""")], "C16")
SEEDS["C16_set_when_set_overwrites"] = ("C16", [(S, """    if hasattr(_treepath_storage, "value") and _treepath_storage.value is not None:
        raise AnnotationError(""", """    if hasattr(_treepath_storage, "value") and _treepath_storage.value is None:
        raise AnnotationError(""")], "C16.4")
SEEDS["C16_set_raises_valueerror"] = ("C16", [(S, """    if hasattr(_treepath_storage, "value") and _treepath_storage.value is not None:
        raise AnnotationError(""", """    if hasattr(_treepath_storage, "value") and _treepath_storage.value is not None:
        raise ValueError(""")], "C16.4")
SEEDS["C16_structureless_clears_label"] = ("C16", [(P, """                if not is_check_leaftype(leaf):
                    return False
            else:""", """                if not is_check_leaftype(leaf):
                    clear_treepath_memo()
                    return False
            else:""")], "C16.1")
SEEDS["C16_flatten_flag_constant_reset"] = ("C16", [(P, FLAT_REGION, """        set_treeflatten_memo()
        try:
            leaves, structure = jtu.tree_flatten(obj, is_leaf=is_flatten_leaftype)
        finally:
            clear_treeflatten_memo()
""")], "C16.1")
TWINS["C16_twin_key_ifexp_free"] = ("C16", [(A, """            if cls_dim.treepath:
                name = get_treepath_memo() + cls_dim.name
            else:
                name = cls_dim.name""", """            if not cls_dim.treepath:
                name = cls_dim.name
            else:
                name = get_treepath_memo() + cls_dim.name""")])
SEEDS["C16_set_never_raises"] = ("C16", [(S, """    if hasattr(_treepath_storage, "value") and _treepath_storage.value is not None:
        raise AnnotationError(
            "Cannot typecheck annotations of the form "
            "`PyTree[PyTree[Shaped[Array, '?foo'], 'T'], 'S']` as it is ambiguous "
            "which PyTree the `?` annotation refers to."
        )
    if index is None:""", """    if index is None:""")], "C16.4")

# ------------------------------------------------------------------------- C19
GUARD = """                if (
                    config.jaxtyping_disable
                    or getattr(fn, "__no_type_check__", False)
                    or getattr(wrapped_fn_holder[0](), "__no_type_check__", False)
                ):
                    return fn(*args, **kwargs)
"""
SEEDS["C19_disable_flag_ignored"] = ("C19", [(D, GUARD, """                if (
                    getattr(fn, "__no_type_check__", False)
                    or getattr(wrapped_fn_holder[0](), "__no_type_check__", False)
                ):
                    return fn(*args, **kwargs)
""")], "C19.1")
SEEDS["C19_guard_and_instead_of_or"] = ("C19", [(D, GUARD, """                if (
                    config.jaxtyping_disable
                    and getattr(fn, "__no_type_check__", False)
                    or getattr(wrapped_fn_holder[0](), "__no_type_check__", False)
                ):
                    return fn(*args, **kwargs)
""")], "C19.1")
SEEDS["C19_guard_negated"] = ("C19", [(D, GUARD, """                if not (
                    config.jaxtyping_disable
                    or getattr(fn, "__no_type_check__", False)
                    or getattr(wrapped_fn_holder[0](), "__no_type_check__", False)
                ):
                    return fn(*args, **kwargs)
""")], "C19.1")
SEEDS["C19_bind_before_guard"] = ("C19", [(D, """                __tracebackhide__ = True

                if (
                    config.jaxtyping_disable""", """                __tracebackhide__ = True
                bound = param_signature.bind(*args, **kwargs)

                if (
                    config.jaxtyping_disable""")], "C19.1")
SEEDS["C19_config_hoisted"] = ("C19", [(D, GUARD, """                if (
                    disabled
                    or getattr(fn, "__no_type_check__", False)
                    or getattr(wrapped_fn_holder[0](), "__no_type_check__", False)
                ):
                    return fn(*args, **kwargs)
"""), (D, """                return out

            wrapped_fn_holder = []  # Avoids introducing a reference cycle.""", """                return out

            wrapped_fn_holder = []  # Avoids introducing a reference cycle.
            disabled = config.jaxtyping_disable""")], "C19.1")
SEEDS["C19_case_sensitive_switch"] = ("C19", [(C, """        if value.lower() in ("0", "false"):
            return False
        elif value.lower() in ("1", "true"):""", """        if value in ("0", "false"):
            return False
        elif value in ("1", "true"):""")], "C19.2")
SEEDS["C19_true_false_swapped"] = ("C19", [(C, """        if value.lower() in ("0", "false"):
            return False""", """        if value.lower() in ("0", "false"):
            return True""")], "C19.2")
SEEDS["C19_other_strings_false"] = ("C19", [(C, """            return True
        else:
            raise ValueError(error)
    else:""", """            return True
        else:
            return False
    else:""")], "C19.2")
SEEDS["C19_nonstr_truthiness"] = ("C19", [(C, """            raise ValueError(error)
    else:
        raise ValueError(error)""", """            raise ValueError(error)
    else:
        return bool(value)""")], "C19")
SEEDS["C19_update_wrong_attribute"] = ("C19", [(C, "            self.jaxtyping_disable = _maybestr2bool(value, msg)", "            self.jaxtyping_disabled = _maybestr2bool(value, msg)")], "C19.3")
SEEDS["C19_env_name_typo"] = ("C19", [(C, 'os.environ.get("JAXTYPING_DISABLE", "0")', 'os.environ.get("JAXTYPING_DISABLED", "0")')], "C19.3")
SEEDS["C19_default_on"] = ("C19", [(C, 'os.environ.get("JAXTYPING_DISABLE", "0")', 'os.environ.get("JAXTYPING_DISABLE", "1")')], "C19.3")
SEEDS["C19_passthrough_drops_kwargs"] = ("C19", [(D, GUARD, GUARD.replace("return fn(*args, **kwargs)", "return fn(*args)"))], "C19.1")
TWINS["C19_twin_reordered_atoms"] = ("C19", [(D, GUARD, """                if (
                    getattr(fn, "__no_type_check__", False)
                    or config.jaxtyping_disable
                    or getattr(wrapped_fn_holder[0](), "__no_type_check__", False)
                ):
                    return fn(*args, **kwargs)
""")])
TWINS["C19_twin_demorgan"] = ("C19", [(D, GUARD + """
                # Raise bind-time errors before we do any shape analysis. (I.e. skip
                # the pointless jaxtyping information for a non-typechecking failure.)
                bound = param_signature.bind(*args, **kwargs)
                bound.apply_defaults()

                memos = push_shape_memo(bound.arguments)
                try:
                    # Put this in a separate frame to make debugging easier, without
                    # just always ending up on the `pop_shape_memo` line below.
                    return wrapped_fn_impl(args, kwargs, bound, memos)
                finally:
                    pop_shape_memo()
""", """                if not (
                    not config.jaxtyping_disable
                    and not getattr(fn, "__no_type_check__", False)
                    and not getattr(wrapped_fn_holder[0](), "__no_type_check__", False)
                ):
                    return fn(*args, **kwargs)
                bound = param_signature.bind(*args, **kwargs)
                bound.apply_defaults()
                memos = push_shape_memo(bound.arguments)
                try:
                    return wrapped_fn_impl(args, kwargs, bound, memos)
                finally:
                    pop_shape_memo()
""")])
# Since the repair of F13 the guard text occurs twice in jaxtyped (old-style wrapper first, new-style second): the seeds above are
# pinned to the new-style wrapper by the comment that follows its guard; `_oldstyle` copies break the first occurrence.
_TAIL_NEW = "\n                # Raise bind-time errors before we do any shape analysis."
for _k in ("C19_disable_flag_ignored", "C19_guard_and_instead_of_or", "C19_guard_negated", "C19_passthrough_drops_kwargs", "C19_config_hoisted"):
    _p, _edits, _rule = SEEDS[_k]
    if _k != "C19_config_hoisted":
        SEEDS[_k + "_oldstyle"] = (_p, list(_edits), _rule)
    SEEDS[_k] = (_p, [(_f, _o + _TAIL_NEW, _n + _TAIL_NEW) if _o == GUARD else (_f, _o, _n) for _f, _o, _n in _edits], _rule)
_p, _edits = TWINS["C19_twin_reordered_atoms"]
TWINS["C19_twin_reordered_atoms_oldstyle"] = (_p, list(_edits))
TWINS["C19_twin_reordered_atoms"] = (_p, [(_f, _o + _TAIL_NEW, _n + _TAIL_NEW) for _f, _o, _n in _edits])
# F13 re-introduced: the old-style wrapper without the guard / with a guard that lets the push through
SEEDS["C19_oldstyle_guard_removed"] = ("C19", [(D, GUARD + """
                bound = signature.bind(*args, **kwargs)""", """                bound = signature.bind(*args, **kwargs)""")], "C19.1")
SEEDS["C19_oldstyle_guard_after_push"] = ("C19", [(D, GUARD + """
                bound = signature.bind(*args, **kwargs)
                bound.apply_defaults()
                memos = push_shape_memo(bound.arguments)
""", """                bound = signature.bind(*args, **kwargs)
                bound.apply_defaults()
                memos = push_shape_memo(bound.arguments)
""" + GUARD)], "C19.1")
SEEDS["C19_oldstyle_guard_lacks_config"] = ("C19", [(D, """                if (
                    config.jaxtyping_disable
                    or getattr(fn, "__no_type_check__", False)
                    or getattr(wrapped_fn_holder[0](), "__no_type_check__", False)
                ):
                    return fn(*args, **kwargs)

                bound = signature.bind(""", """                if (
                    getattr(fn, "__no_type_check__", False)
                    or getattr(wrapped_fn_holder[0](), "__no_type_check__", False)
                ):
                    return fn(*args, **kwargs)

                bound = signature.bind(""")], "C19.1")
TWINS["C19_twin_parser_restructured"] = ("C19", [(C, """    if isinstance(value, bool):
        return value
    elif isinstance(value, str):
        if value.lower() in ("0", "false"):
            return False
        elif value.lower() in ("1", "true"):
            return True
        else:
            raise ValueError(error)
    else:
        raise ValueError(error)""", """    if isinstance(value, bool):
        return value
    if not isinstance(value, str):
        raise ValueError(error)
    if value.lower() in ["1", "true"]:
        return True
    if value.lower() in ["0", "false"]:
        return False
    raise ValueError(error)""")])

# ------------------------------------------------------------------------- C07
SEEDS["C07_second_call_in_return_path"] = ("C07", [(D, """                    kwargs[output_name] = out
                    try:
                        full_fn(*args, **kwargs)""", """                    kwargs[output_name] = fn(*args, **kwargs)
                    try:
                        full_fn(*args, **kwargs)""")], "C07.1")
SEEDS["C07_handler_falls_through"] = ("C07", [(D, """                        if config.jaxtyping_remove_typechecker_stack:
                            raise TypeCheckError(msg) from None
                        else:
                            raise TypeCheckError(msg) from e

                # Actually call the function.""", """                        if config.jaxtyping_remove_typechecker_stack:
                            raise TypeCheckError(msg) from None
                        else:
                            warnings.warn(msg)

                # Actually call the function.""")], "C07.2")
SEEDS["C07_get_problem_arg_may_return"] = ("C07", [(D, """    else:
        # Could not localise the problem to a single argument -- probably due to
        # e.g. a mismatched typevar, which each individual argument is okay with.
        raise TypeCheckError("")""", """    else:
        # Could not localise the problem to a single argument -- probably due to
        # e.g. a mismatched typevar, which each individual argument is okay with.
        return \"\"""")], "C07.2")
SEEDS["C07_property_fset_from_fget"] = ("C07", [(D, "            fset = jaxtyped(fn.fset, typechecker=typechecker)", "            fset = jaxtyped(fn.fget, typechecker=typechecker)")], "C07.4")
SEEDS["C07_classmethod_becomes_staticmethod"] = ("C07", [(D, "        return classmethod(jaxtyped(fn.__func__, typechecker=typechecker))", "        return staticmethod(jaxtyped(fn.__func__, typechecker=typechecker))")], "C07.4")
SEEDS["C07_wraps_dropped"] = ("C07", [(D, """            @ft.wraps(fn)
            def wrapped_fn(*args, **kwargs):
                __tracebackhide__ = True

                if (""", """            def wrapped_fn(*args, **kwargs):
                __tracebackhide__ = True

                if (""")], "C07")
SEEDS["C07_gensym_without_param_names"] = ("C07", [(D, """        output_name = _gensym(param_names, prefix="ret")""", """        output_name = _gensym(frozenset(), prefix="ret")""")], "C07.5")
SEEDS["C07_template_name_unvalidated"] = ("C07", [(D, """    if name.isidentifier() and not keyword.iskeyword(name):
        def_name = name
    else:""", """    if True:
        def_name = name
    else:""")], "C07.5")
SEEDS["C07_bind_inside_converting_try"] = ("C07", [(D, """                bound = param_signature.bind(*args, **kwargs)
                bound.apply_defaults()

                memos = push_shape_memo(bound.arguments)""", """                try:
                    bound = param_signature.bind(*args, **kwargs)
                except TypeError as e:
                    raise TypeCheckError(str(e)) from e
                bound.apply_defaults()

                memos = push_shape_memo(bound.arguments)""")], "C07.3")
SEEDS["C07_kwonly_kind_dropped"] = ("C07", [(D, """        elif p.kind == inspect.Parameter.KEYWORD_ONLY:
            key.append(p)
""", "")], "C07.6")
SEEDS["C07_groups_out_of_order"] = ("C07", [(D, """    if len(key) > 0:
        for p in key:
            argstr_pieces.append(_make_argpiece(p, name_to_annotation, name_to_default))
    if len(varkey) == 1:""", """    if len(varkey) == 1:"""), (D, """    else:
        assert len(varkey) == 0
    argstr = ", ".join(argstr_pieces)""", """    else:
        assert len(varkey) == 0
    if len(key) > 0:
        for p in key:
            argstr_pieces.append(_make_argpiece(p, name_to_annotation, name_to_default))
    argstr = ", ".join(argstr_pieces)""")], "C07.6")
SEEDS["C07_returns_none"] = ("C07", [(D, """                        else:
                            raise TypeCheckError(msg) from e

                return out""", """                        else:
                            raise TypeCheckError(msg) from e
""")], "C07.1")
SEEDS["C07_old_style_drops_result"] = ("C07", [(D, """                try:
                    return fn(*args, **kwargs)
                except Exception as e:
                    # Adding""", """                try:
                    fn(*args, **kwargs)
                except Exception as e:
                    # Adding""")], "C07.1")
SEEDS["C07_call_before_param_check"] = ("C07", [(D, """            def wrapped_fn_impl(args, kwargs, bound, memos):
                __tracebackhide__ = True
""", """            def wrapped_fn_impl(args, kwargs, bound, memos):
                __tracebackhide__ = True
                out = fn(*args, **kwargs)
"""), (D, """                # Actually call the function.
                out = fn(*args, **kwargs)
""", """                # Already called above.
""")], "C07.2")
TWINS["C07_twin_result_renamed"] = ("C07", [(D, """                    return wrapped_fn_impl(args, kwargs, bound, memos)
                finally:""", """                    result = wrapped_fn_impl(args, kwargs, bound, memos)
                    return result
                finally:""")])

# ------------------------------------------------------------------------- C13
SEEDS["C13_cause_polarity_swapped"] = ("C13", [(D, """                        if config.jaxtyping_remove_typechecker_stack:
                            raise TypeCheckError(msg) from None
                        else:
                            raise TypeCheckError(msg) from e

                # Actually""", """                        if config.jaxtyping_remove_typechecker_stack:
                            raise TypeCheckError(msg) from e
                        else:
                            raise TypeCheckError(msg) from None

                # Actually""")], "C13.4")
SEEDS["C13_annotationerror_swallowed_in_return"] = ("C13", [(D, """                        full_fn(*args, **kwargs)
                    except AnnotationError:
                        raise
                    except Exception as e:""", """                        full_fn(*args, **kwargs)
                    except Exception as e:""")], "C13.2")
SEEDS["C13_annotationerror_handler_after_exception"] = ("C13", [(D, """                    param_fn(*args, **kwargs)
                except AnnotationError:
                    raise
                except Exception:""", """                    param_fn(*args, **kwargs)
                except (TypeError, AnnotationError):""")], "C13.2")
SEEDS["C13_return_message_says_parameters"] = ("C13", [(D, """                            "Type-check error whilst checking the return value "
                            f"of {module_name}.{qualname}.\\n\"""", """                            "Type-check error whilst checking the parameters of "
                            f"{module_name}.{qualname}.\\n\"""")], "C13.3")
SEEDS["C13_param_failure_raises_typeerror"] = ("C13", [(D, """                        if config.jaxtyping_remove_typechecker_stack:
                            raise TypeCheckError(msg) from None
                        else:
                            raise TypeCheckError(msg) from e

                # Actually""", """                        if config.jaxtyping_remove_typechecker_stack:
                            raise TypeError(msg) from None
                        else:
                            raise TypeCheckError(msg) from e

                # Actually""")], "C13.3")
SEEDS["C13_blame_in_fresh_context"] = ("C13", [(D, """        fn = _apply_typechecker(
            typechecker, fn
        )  # but no `jaxtyped`; keep the same environment.""", """        fn = jaxtyped(fn, typechecker=typechecker)""")], "C13.5")
SEEDS["C13_stale_memos_via_replace"] = ("C13", [(S, """        new_memos = (single_memo, variadic_memo, pytree_memo, arg_memo)
        for memo, new_memo in zip(_shape_storage.memo_stack[-1], new_memos):
            if memo is not new_memo:
                memo.clear()
                memo.update(new_memo)""", """        _shape_storage.memo_stack[-1] = (
            single_memo,
            variadic_memo,
            pytree_memo,
            arg_memo,
        )""")], "C13.1")
SEEDS["C13_push_returns_copy"] = ("C13", [(S, """    memo_stack.append(memos)
    return memos""", """    memo_stack.append(memos)
    return tuple(dict(m) for m in memos)""")], "C13.1")
SEEDS["C13_annotationerror_is_typeerror"] = ("C13", [("jaxtyping/_errors.py", "class AnnotationError(Exception):", "class AnnotationError(TypeError):")], "C13.3")
TWINS["C13_twin_fresh_get"] = ("C13", [(D, """                            f"Parameter annotations: {param_hints}.\\n"
                            + shape_str(memos)
                        )
                        if config.jaxtyping_remove_typechecker_stack:
                            raise TypeCheckError(msg) from None
                        else:
                            raise TypeCheckError(msg) from e

                # Actually""", """                            f"Parameter annotations: {param_hints}.\\n"
                            + shape_str(get_shape_memo())
                        )
                        if config.jaxtyping_remove_typechecker_stack:
                            raise TypeCheckError(msg) from None
                        else:
                            raise TypeCheckError(msg) from e

                # Actually"""), (D, "from ._storage import pop_shape_memo, push_shape_memo, shape_str", "from ._storage import get_shape_memo, pop_shape_memo, push_shape_memo, shape_str")])
TWINS["C13_twin_negated_switch"] = ("C13", [(D, """                        if config.jaxtyping_remove_typechecker_stack:
                            raise TypeCheckError(msg) from None
                        else:
                            raise TypeCheckError(msg) from e

                # Actually""", """                        if not config.jaxtyping_remove_typechecker_stack:
                            raise TypeCheckError(msg) from e
                        else:
                            raise TypeCheckError(msg) from None

                # Actually""")])

TWINS["C13_twin_cause_conditional_expression"] = ("C13", [(D, """                        if config.jaxtyping_remove_typechecker_stack:
                            raise TypeCheckError(msg) from None
                        else:
                            raise TypeCheckError(msg) from e

                # Actually""", """                        raise TypeCheckError(msg) from (
                            None if config.jaxtyping_remove_typechecker_stack else e
                        )

                # Actually""")])
TWINS["C13_twin_cause_local"] = ("C13", [(D, """                        if config.jaxtyping_remove_typechecker_stack:
                            raise TypeCheckError(msg) from None
                        else:
                            raise TypeCheckError(msg) from e

                # Actually""", """                        cause = e
                        if config.jaxtyping_remove_typechecker_stack:
                            cause = None
                        raise TypeCheckError(msg) from cause

                # Actually""")])
SEEDS["C01_symbolic_value_truncated"] = ("C01", [(A, """            if eval_size != obj_size:""", """            eval_size = int(eval_size)
            if eval_size != obj_size:""")], "C01.3")
SEEDS["C02_dataclass_skip_by_inherited_marker"] = ("C02", [(D, """                already_wrapped = fn.__init__.__globals__["__name__"] == __name__""", """                already_wrapped = getattr(fn, "_jaxtyped_init", False)"""), (D, """            fn.__init__ = jaxtyped(fn.__init__, typechecker=typechecker)
""", """            fn.__init__ = jaxtyped(fn.__init__, typechecker=typechecker)
            fn._jaxtyped_init = True
""")], "C02.7")
TWINS["C02_twin_dataclass_skip_by_own_dict"] = ("C02", [(D, """                already_wrapped = fn.__init__.__globals__["__name__"] == __name__""", """                already_wrapped = fn.__dict__["__init__"].__globals__["__name__"] == __name__""")])
SEEDS["C03_last_dtype_slot_on_class"] = ("C03", [(A, """            if not in_dtypes:
                if len(cls.dtypes) == 1:""", """            cls._last_seen = (dtype, in_dtypes)
            if not in_dtypes:
                if len(cls.dtypes) == 1:""")], "C03.9")
SEEDS["C05_push_warns_after_append"] = ("C05", [(S, """    memo_stack.append(memos)
""", """    memo_stack.append(memos)
    if len(memo_stack) > 500:
        import warnings

        warnings.warn("deeply nested jaxtyped contexts")
""")], "C05.7")
TWINS["C05_twin_push_warns_before_append"] = ("C05", [(S, """    memo_stack.append(memos)
""", """    if len(memo_stack) > 500:
        import warnings

        warnings.warn("deeply nested jaxtyped contexts")
    memo_stack.append(memos)
""")])
SEEDS["C05_enclosing_frames_consulted"] = ("C05", [(S, """def pop_shape_memo() -> None:""", """def enclosing_sizes():
    out = {}
    for frame in _shape_storage.memo_stack[:-1]:
        out.update(frame[0])
    return out


def pop_shape_memo() -> None:""")], "C05.8")
SEEDS["C06_reentrancy_flag_in_closure_cell"] = ("C06", [(D, """                memos = push_shape_memo(bound.arguments)
                try:
                    # Put this in a separate frame to make debugging easier, without
                    # just always ending up on the `pop_shape_memo` line below.
                    return wrapped_fn_impl(args, kwargs, bound, memos)""", """                memos = push_shape_memo(bound.arguments)
                wrapped_fn_holder.append(None)
                try:
                    # Put this in a separate frame to make debugging easier, without
                    # just always ending up on the `pop_shape_memo` line below.
                    return wrapped_fn_impl(args, kwargs, bound, memos)""")], "C06.5")
SEEDS["C07_args_rebound_from_binding"] = ("C07", [(D, """                bound = param_signature.bind(*args, **kwargs)
                bound.apply_defaults()

                memos = push_shape_memo(bound.arguments)""", """                bound = param_signature.bind(*args, **kwargs)
                bound.apply_defaults()
                args, kwargs = bound.args, bound.kwargs

                memos = push_shape_memo(bound.arguments)""")], "C07.1")
SEEDS["C08_accept_while_flattening"] = ("C08", [(P, """        if obj is None:
            return True

        single_memo""", """        if obj is None:
            return True
        if cls.structure is None and get_treeflatten_memo():
            return True

        single_memo""")], "C08.1")
SEEDS["C08_leaves_from_remembered_flatten"] = ("C08", [(P, """        was_flattening = get_treeflatten_memo()
        set_treeflatten_memo()
        try:
            leaves, structure = jtu.tree_flatten(obj, is_leaf=is_flatten_leaftype)
        finally:
            if not was_flattening:
                clear_treeflatten_memo()
""", """        was_flattening = get_treeflatten_memo()
        set_treeflatten_memo()
        try:
            leaves, structure = jtu.tree_flatten(obj, is_leaf=is_flatten_leaftype)
        finally:
            if not was_flattening:
                clear_treeflatten_memo()
        if getattr(cls, "_last", None) is not None and cls._last[0] is obj:
            leaves, structure = cls._last[1]
""")], "C08.3")
SEEDS["C09_names_loop_breaks_before_lookup"] = ("C09", [(P, """                for identifier in pieces:
                    try:
                        prev_structure = pytree_memo[identifier]""", """                for identifier in pieces:
                    if named_pytree is None:
                        break
                    try:
                        prev_structure = pytree_memo[identifier]""")], "C09.1")
SEEDS["C10_uninstall_forgets_typechecker"] = ("C10", [(H, """            sys.meta_path.remove(self.hook)
        except ValueError:
            pass  # already removed
""", """            sys.meta_path.remove(self.hook)
        except ValueError:
            pass  # already removed
        Typechecker.lookup.pop(self.hook._typechecker.get_hash(), None)
""")], "C10.6")
SEEDS["C04_cm_in_storage_restores_only_on_exception"] = ("C04", [("@diff", "benign/S7/1.diff", None), (S, """        if not self.matched:
            set_shape_memo(*self._backups)""", """        if exc_type is not None:
            set_shape_memo(*self._backups)""")], "C04.1")
SEEDS["C04_cm_in_storage_snapshot_aliases_live"] = ("C04", [("@diff", "benign/S7/1.diff", None), (S, """            single_memo.copy(),
            variadic_memo.copy(),""", """            single_memo,
            variadic_memo.copy(),""")], "C04")
SEEDS["C04_finally_restore_polarity_flipped"] = ("C04", [("@diff", "benign/RZ/4.diff", None), (P, """            if not matched:""", """            if matched:""")], "C04.1")
SEEDS["C04_tuple_snapshot_is_live_tuple"] = ("C04", [("@diff", "benign/R5/1.diff", None), (P, """        backups = tuple([memo.copy() for memo in memos])""", """        backups = tuple([memo for memo in memos])""")], "C04")
SEEDS["C04_namedtuple_snapshot_fields_swapped"] = ("C04", [("@diff", "benign/S7/2.diff", None), (S, """            self.single_memo.copy(),
            self.variadic_memo.copy(),""", """            self.variadic_memo.copy(),
            self.single_memo.copy(),""")], "C04")
SEEDS["C04_storage_snapshot_helper_aliases_a_memo"] = ("C04", [("@diff", "benign/S7/4.diff", None), (S, """        pytree_structures.copy(),
        arg_values.copy(),""", """        pytree_structures,
        arg_values.copy(),""")], "C04")
SEEDS["C18_code_memo_blind_to_checker"] = ("C18", [(H, """class Typechecker:
    lookup = {}
""", """_compiled_code = {}


class Typechecker:
    lookup = {}
"""), (H, """    def source_to_code(self, data, path, *, _optimize=-1):
        source = decode_source(data)""", """    def source_to_code(self, data, path, *, _optimize=-1):
        if (path, bytes(data)) in _compiled_code:
            return _compiled_code[(path, bytes(data))]
        code = self._compile(data, path, _optimize=_optimize)
        _compiled_code[(path, bytes(data))] = code
        return code

    def _compile(self, data, path, *, _optimize=-1):
        source = decode_source(data)""")], "C18.8")
TWINS["C18_twin_code_memo_keyed_by_checker"] = ("C18", [(H, """class Typechecker:
    lookup = {}
""", """_compiled_code = {}


class Typechecker:
    lookup = {}
"""), (H, """    def source_to_code(self, data, path, *, _optimize=-1):
        source = decode_source(data)""", """    def source_to_code(self, data, path, *, _optimize=-1):
        key = (self._typechecker.get_hash(), path, bytes(data), _optimize)
        if key in _compiled_code:
            return _compiled_code[key]
        code = self._compile(data, path, _optimize=_optimize)
        _compiled_code[key] = code
        return code

    def _compile(self, data, path, *, _optimize=-1):
        source = decode_source(data)""")])
SEEDS["C19_config_is_thread_local"] = ("C19", [("jaxtyping/_config.py", "import os\n", "import os\nimport threading\n"), ("jaxtyping/_config.py", "class _JaxtypingConfig:", "class _JaxtypingConfig(threading.local):")], "C19.4")
SEEDS["C19_hook_skips_instrumentation_when_disabled"] = ("C19", [(H, """from unittest.mock import patch
""", """from unittest.mock import patch

from ._config import config
"""), (H, """    def source_to_code(self, data, path, *, _optimize=-1):
        source = decode_source(data)""", """    def source_to_code(self, data, path, *, _optimize=-1):
        if config.jaxtyping_disable:
            return super().source_to_code(data, path, _optimize=_optimize)
        source = decode_source(data)""")], "C19.1")
SEEDS["C20_check_time_cache_on_annotation_class"] = ("C20", [(A, """        if get_treeflatten_memo():
            return \"\"
""", """        if get_treeflatten_memo():
            return \"\"
        if \"_seen_types\" not in cls.__dict__:
            cls._seen_types = set()
        cls._seen_types.add(type(obj))
""")], "C20.6")
SEEDS["C12_unpickle_through_live_registry"] = ("C12", [(A, """def _pickle_array_annotation(x: type["AbstractArray"]):""", """_live = {}


def _restore(dtype, getitem_args):
    try:
        return _live[(dtype, getitem_args)]
    except (KeyError, TypeError):
        out = dtype[getitem_args]
        _live[(dtype, getitem_args)] = out
        return out


def _pickle_array_annotation(x: type["AbstractArray"]):"""), (A, """        return x.dtype.__getitem__, (x._getitem_args,)""", """        return _restore, (x.dtype, x._getitem_args)""")], "C12.7")
SEEDS["C17_push_reads_integer_arguments"] = ("C17", [(S, """    memos = ({}, {}, {}, arguments.copy())""", """    sizes = {}
    for name, value in arguments.items():
        if not isinstance(value, bool):
            try:
                sizes[name] = int(value)
            except (TypeError, ValueError):
                pass
    memos = (sizes, {}, {}, arguments.copy())""")], "C17.2")
SEEDS["C16_flatten_flag_cleared_by_leaf_callback"] = ("C16", [(P, """            is_flatten_leaftype = is_check_leaftype = is_leaftype
""", """            def is_flatten_leaftype(x):
                set_treeflatten_memo()
                try:
                    return is_leaftype(x)
                finally:
                    clear_treeflatten_memo()

            is_check_leaftype = is_leaftype
"""), (P, """        was_flattening = get_treeflatten_memo()
        set_treeflatten_memo()
        try:
            leaves, structure = jtu.tree_flatten(obj, is_leaf=is_flatten_leaftype)
        finally:
            if not was_flattening:
                clear_treeflatten_memo()
""", """        leaves, structure = jtu.tree_flatten(obj, is_leaf=is_flatten_leaftype)
""")], "C16.1")
SEEDS["C15_union_none_member_passed_through"] = ("C15", [(A, """            out = [_make_array(x, dim_str, cls) for x in get_args(array_type)]""", """            out = [x if x is type(None) else _make_array(x, dim_str, cls) for x in get_args(array_type)]""")], "C15.2")
SEEDS["C13_blame_probes_every_parameter"] = ("C13", [(D, """    for keep_name in param_signature.parameters.keys():
        new_parameters = []""", """    problems = []
    for keep_name in param_signature.parameters.keys():
        new_parameters = []"""), (D, """            keep_value = _pformat(arguments[keep_name], short_self=False)
            raise TypeCheckError(
                f"\\nThe problem arose whilst typechecking parameter '{keep_name}'.\\n"
                f"Actual value: {keep_value}\\n"
                f"Expected type: {keep_annotation}."
            ) from e
    else:
        # Could not localise the problem to a single argument -- probably due to
        # e.g. a mismatched typevar, which each individual argument is okay with.
        raise TypeCheckError("")""", """            keep_value = _pformat(arguments[keep_name], short_self=False)
            problems.append((keep_name, keep_value, keep_annotation, e))
    if problems:
        keep_name, keep_value, keep_annotation, e = problems[0]
        raise TypeCheckError(
            f"\\nThe problem arose whilst typechecking parameter '{keep_name}'.\\n"
            f"Actual value: {keep_value}\\n"
            f"Expected type: {keep_annotation}. ({len(problems)} parameters fail)"
        ) from e
    raise TypeCheckError("")""")], "C13.10")
TWINS["C13_twin_blame_breaks_out_of_loop"] = ("C13", [(D, """    for keep_name in param_signature.parameters.keys():
        new_parameters = []""", """    found = None
    for keep_name in param_signature.parameters.keys():
        new_parameters = []"""), (D, """            keep_value = _pformat(arguments[keep_name], short_self=False)
            raise TypeCheckError(
                f"\\nThe problem arose whilst typechecking parameter '{keep_name}'.\\n"
                f"Actual value: {keep_value}\\n"
                f"Expected type: {keep_annotation}."
            ) from e
    else:
        # Could not localise the problem to a single argument -- probably due to
        # e.g. a mismatched typevar, which each individual argument is okay with.
        raise TypeCheckError("")""", """            keep_value = _pformat(arguments[keep_name], short_self=False)
            found = (keep_name, keep_value, keep_annotation, e)
            break
    if found is not None:
        keep_name, keep_value, keep_annotation, e = found
        raise TypeCheckError(
            f"\\nThe problem arose whilst typechecking parameter '{keep_name}'.\\n"
            f"Actual value: {keep_value}\\n"
            f"Expected type: {keep_annotation}."
        ) from e
    raise TypeCheckError("")""")])
SEEDS["C13_pytree_rollback_keeps_leaf_bindings"] = ("C13", [(P, """            set_shape_memo(
                single_memo_bak, variadic_memo_bak, pytree_memo_bak, arg_memo_bak
            )
            return False""", """            set_shape_memo(single_memo, variadic_memo, pytree_memo_bak, arg_memo)
            return False""")], "C13.11")
SEEDS["C13_cause_conditional_expression_swapped"] = ("C13", [(D, """                        if config.jaxtyping_remove_typechecker_stack:
                            raise TypeCheckError(msg) from None
                        else:
                            raise TypeCheckError(msg) from e

                # Actually""", """                        raise TypeCheckError(msg) from (
                            e if config.jaxtyping_remove_typechecker_stack else None
                        )

                # Actually""")], "C13.4")
SEEDS["C13_cause_flag_ignored"] = ("C13", [(D, """                        if config.jaxtyping_remove_typechecker_stack:
                            raise TypeCheckError(msg) from None
                        else:
                            raise TypeCheckError(msg) from e

                # Actually""", """                        raise TypeCheckError(msg) from e

                # Actually""")], "C13.4")

# NamedTuple holders for the four memos (normalised away: jtsa/inline.py erase_new_namedtuples)
TWINS["C04_twin_namedtuple_memos"] = ("C04", [(A, """        single_memo, variadic_memo, pytree_memo, arg_memo = get_shape_memo()
        single_memo_bak = single_memo.copy()
        variadic_memo_bak = variadic_memo.copy()
        pytree_memo_bak = pytree_memo.copy()
        arg_memo_bak = arg_memo.copy()
        try:
            check = cls._check_shape(obj, single_memo, variadic_memo, arg_memo)
        except BaseException:
            set_shape_memo(
                single_memo_bak, variadic_memo_bak, pytree_memo_bak, arg_memo_bak
            )
            raise
        if check == "":
            return check
        else:
            set_shape_memo(
                single_memo_bak, variadic_memo_bak, pytree_memo_bak, arg_memo_bak
            )
            return check
""", """        memos = _ShapeMemos(*get_shape_memo())
        backup = _ShapeMemos(*[memo.copy() for memo in memos])
        try:
            check = cls._check_shape(obj, memos.single, memos.variadic, memos.arg)
        except BaseException:
            set_shape_memo(*backup)
            raise
        if check != "":
            set_shape_memo(*backup)
        return check
"""), (A, "def _dtype_is_numpy_struct_array(dtype):", """class _ShapeMemos(NamedTuple):
    single: dict
    variadic: dict
    pytree: dict
    arg: dict


def _dtype_is_numpy_struct_array(dtype):"""), (A, "    Literal,\n", "    Literal,\n    NamedTuple,\n")])
SEEDS["C04_namedtuple_memos_no_rollback_on_exception"] = ("C04", [(A, """        single_memo, variadic_memo, pytree_memo, arg_memo = get_shape_memo()
        single_memo_bak = single_memo.copy()
        variadic_memo_bak = variadic_memo.copy()
        pytree_memo_bak = pytree_memo.copy()
        arg_memo_bak = arg_memo.copy()
        try:
            check = cls._check_shape(obj, single_memo, variadic_memo, arg_memo)
        except BaseException:
            set_shape_memo(
                single_memo_bak, variadic_memo_bak, pytree_memo_bak, arg_memo_bak
            )
            raise
        if check == "":
            return check
        else:
            set_shape_memo(
                single_memo_bak, variadic_memo_bak, pytree_memo_bak, arg_memo_bak
            )
            return check
""", """        memos = _ShapeMemos(*get_shape_memo())
        backup = _ShapeMemos(*[memo.copy() for memo in memos])
        check = cls._check_shape(obj, memos.single, memos.variadic, memos.arg)
        if check != "":
            set_shape_memo(*backup)
        return check
"""), (A, "def _dtype_is_numpy_struct_array(dtype):", """class _ShapeMemos(NamedTuple):
    single: dict
    variadic: dict
    pytree: dict
    arg: dict


def _dtype_is_numpy_struct_array(dtype):"""), (A, "    Literal,\n", "    Literal,\n    NamedTuple,\n")], "C04.1")
SEEDS["C04_namedtuple_memos_snapshot_aliases"] = ("C04", [(A, """        single_memo, variadic_memo, pytree_memo, arg_memo = get_shape_memo()
        single_memo_bak = single_memo.copy()
        variadic_memo_bak = variadic_memo.copy()
        pytree_memo_bak = pytree_memo.copy()
        arg_memo_bak = arg_memo.copy()
        try:
            check = cls._check_shape(obj, single_memo, variadic_memo, arg_memo)
        except BaseException:
            set_shape_memo(
                single_memo_bak, variadic_memo_bak, pytree_memo_bak, arg_memo_bak
            )
            raise
        if check == "":
            return check
        else:
            set_shape_memo(
                single_memo_bak, variadic_memo_bak, pytree_memo_bak, arg_memo_bak
            )
            return check
""", """        memos = _ShapeMemos(*get_shape_memo())
        backup = _ShapeMemos(*memos)
        try:
            check = cls._check_shape(obj, memos.single, memos.variadic, memos.arg)
        except BaseException:
            set_shape_memo(*backup)
            raise
        if check != "":
            set_shape_memo(*backup)
        return check
"""), (A, "def _dtype_is_numpy_struct_array(dtype):", """class _ShapeMemos(NamedTuple):
    single: dict
    variadic: dict
    pytree: dict
    arg: dict


def _dtype_is_numpy_struct_array(dtype):"""), (A, "    Literal,\n", "    Literal,\n    NamedTuple,\n")], "C04")

# table-driven rewrites (normalised by jtsa/inline.py unroll_new_tables): the refactoring itself is a twin
# (benign corpus), a wrong row in the table is a seed
SEEDS["C01_dispatch_table_fixed_axis_checked_as_named"] = ("C01", [("@diff", "benign/RX/1.diff", None), (A, """    _FixedDim: _check_fixed_dim,
""", """    _FixedDim: _check_named_dim,
""")], "C01")
SEEDS["C01_dispatch_table_missing_symbolic_row"] = ("C01", [("@diff", "benign/RX/1.diff", None), (A, """    _SymbolicDim: _check_symbolic_dim,
""", "")], "C01")
SEEDS["C14_modifier_table_row_dropped"] = ("C14", [("@diff", "benign/RY/2.diff", None), (A, """    (
        "?",
        "Do not use ? twice to denote dependence on location "
        "within a PyTree, e.g. `??foo` is not allowed",
    ),
""", "")], "C14")
SEEDS["C14_modifier_table_twice_check_dropped"] = ("C14", [("@diff", "benign/RY/2.diff", None), (A, """                        if seen[modifier]:
                            raise ValueError(twice_msg)
""", "")], "C14")
SEEDS["C19_flag_table_wrong_attribute"] = ("C19", [("@diff", "benign/RV/3.diff", None), (C, """                setattr(self, flag, _maybestr2bool(value, msg))""", """                setattr(self, "jaxtyping_disable", _maybestr2bool(value, msg))""")], "C19")
SEEDS["C19_flag_table_env_not_read"] = ("C19", [("@diff", "benign/RV/3.diff", None), (C, """            self.update(flag, os.environ.get(flag.upper(), "0"))""", """            self.update(flag, "0")""")], "C19")

# memo tables keyed by a lossy rendering (rules/_memo.py)
SEEDS["C20_dtype_verdict_memo_keyed_by_id"] = ("C20", [(A, """        if cls.dtypes is not _any_dtype:
            in_dtypes = False
            for cls_dtype in cls.dtypes:""", """        if cls.dtypes is not _any_dtype and (id(cls.dtypes), dtype) in _dtype_memo:
            if not _dtype_memo[(id(cls.dtypes), dtype)]:
                return "this array has the wrong dtype"
        elif cls.dtypes is not _any_dtype:
            in_dtypes = False
            _dtype_memo[(id(cls.dtypes), dtype)] = any(d == dtype for d in cls.dtypes if type(d) is str)
            for cls_dtype in cls.dtypes:"""), (A, "def _dtype_is_numpy_struct_array(dtype):", "_dtype_memo: dict = {}\n\n\ndef _dtype_is_numpy_struct_array(dtype):")], "C20.7")
TWINS["C20_twin_dtype_verdict_memo_keyed_by_object"] = ("C20", [(A, """        if cls.dtypes is not _any_dtype:
            in_dtypes = False
            for cls_dtype in cls.dtypes:""", """        if cls.dtypes is not _any_dtype and (cls.dtypes, dtype) in _dtype_memo:
            if not _dtype_memo[(cls.dtypes, dtype)]:
                return "this array has the wrong dtype"
        elif cls.dtypes is not _any_dtype:
            in_dtypes = False
            _dtype_memo[(cls.dtypes, dtype)] = any(d == dtype for d in cls.dtypes if type(d) is str)
            for cls_dtype in cls.dtypes:"""), (A, "def _dtype_is_numpy_struct_array(dtype):", "_dtype_memo: dict = {}\n\n\ndef _dtype_is_numpy_struct_array(dtype):")])
SEEDS["C13_blame_checkers_memo_keyed_by_str_of_signature"] = ("C13", [(D, """    for keep_name in param_signature.parameters.keys():
        new_parameters = []""", """    for keep_name in param_signature.parameters.keys():
        if (str(param_signature), keep_name) in _blame_memo:
            _blame_memo[(str(param_signature), keep_name)](*args, **kwargs)
        _blame_memo[(str(param_signature), keep_name)] = typechecker
        new_parameters = []"""), (D, "def _get_problem_arg(", "_blame_memo: dict = {}\n\n\ndef _get_problem_arg(")], "C13.9")

# batch-7 driven clauses: C18.7, C14.2(vi), C14.4 raw-token tests, C17.2 push
SEEDS["C18_typechecker_imported_while_compiling"] = ("C18", [(H, """    def source_to_code(self, data, path, *, _optimize=-1):
        source = decode_source(data)""", """    def source_to_code(self, data, path, *, _optimize=-1):
        importlib.import_module(self._typechecker.module_name)
        source = decode_source(data)""")], "C18.7")
TWINS["C18_twin_constant_stdlib_import_while_compiling"] = ("C18", [(H, """    def source_to_code(self, data, path, *, _optimize=-1):
        source = decode_source(data)""", """    def source_to_code(self, data, path, *, _optimize=-1):
        importlib.import_module("ast")
        source = decode_source(data)""")])
SEEDS["C14_symbolic_axis_compiled_at_construction"] = ("C14", [(A, """            elem = _SymbolicDim(elem, broadcastable)""", """            compile(elem, "<axis>", "eval")
            elem = _SymbolicDim(elem, broadcastable)""")], "C14.2")
SEEDS["C14_trailing_hash_tested_after_stripping"] = ("C14", [(A, """        if elem.endswith("#"):
            raise ValueError(
                "As of jaxtyping v0.1.0, broadcastable axes are now denoted "
                "with a # at the start, rather than at the end"
            )

""", ""), (A, """            if len(elem) == 0 or elem.isidentifier():
                dim_type = _DimType.named""", """            if elem.endswith("#"):
                raise ValueError("broadcastable axes are denoted with a # at the start")
            if len(elem) == 0 or elem.isidentifier():
                dim_type = _DimType.named""")], "C14.4")
SEEDS["C17_push_drops_some_arguments_by_value"] = ("C17", [(S, """    memos = ({}, {}, {}, arguments.copy())""", """    memos = ({}, {}, {}, {k: v for k, v in arguments.items() if not hasattr(v, "aval")})""")], "C17.2")
TWINS["C17_twin_push_copies_by_comprehension"] = ("C17", [(S, """    memos = ({}, {}, {}, arguments.copy())""", """    memos = ({}, {}, {}, {k: v for k, v in arguments.items()})""")])

# F12 reverted: PEP 604 unions fall through the vendored check_type
SEEDS["C08_pep604_union_branch_removed"] = ("C08", [(TG, """    elif _UnionType is not None and isinstance(expected_type, _UnionType):
        # PEP 604 unions (`int | str`) on Python 3.10+: not a class, and no `__origin__`
        check_union(argname, value, expected_type, memo)
""", "")], "C08.8")

# defects planted *on top of* wave-7 refactorings (coordinated interface changes): the normalised form must still carry them
SEEDS["C08_parametric_flag_never_cleared"] = ("C08", [("@diff", "benign/S1/4.diff", None), (P, """                set_treeflatten_memo(False)""", """                set_treeflatten_memo(True)""")], "C08.7")
SEEDS["C07_callinfo_drops_kwargs"] = ("C07", [("@diff", "benign/S2/3.diff", None), (D, """                        _CallInfo(args, kwargs, bound.arguments, memos)""", """                        _CallInfo(args, {}, bound.arguments, memos)""")], "C07")
SEEDS["C11_settings_record_ignores_typechecker"] = ("C11", [("@diff", "benign/S6/2.diff", None), (H, """        return cls(modules, _HookSettings(Typechecker(typechecker), finder))""", """        return cls(modules, _HookSettings(Typechecker(None), finder))""")], "C11.4")
SEEDS["C13_stage_helper_called_with_wrong_stage"] = ("C13", [("@diff", "benign/S2/2.diff", None), (D, """                            _STAGE_PARAMETERS,""", """                            _STAGE_RETURN,""")], "C13.3")
SEEDS["C04_result_record_failed_check_not_rolled_back"] = ("C04", [("@diff", "benign/S3/1.diff", None), (A, """        if not check.ok:
            set_shape_memo(*backups)
        return check.message""", """        return check.message""")], "C04.1")
SEEDS["C04_rollback_cm_restores_on_the_wrong_exit"] = ("C04", [("@diff", "benign/RX/2.diff", None), (A, """        if exc_type is not None:
            self.restore()""", """        if exc_type is None:
            self.restore()""")], "C04.1")
SEEDS["C05_top_helper_returns_bottom_frame"] = ("C05", [("@diff", "benign/S1/3.diff", None), (S, """    return memo_stack[-1]""", """    return memo_stack[0]""")], "C05")
SEEDS["C10_transformer_factory_ignores_own_checker"] = ("C10", [("@diff", "benign/S6/1.diff", None), (H, """        return JaxtypingTransformer(typechecker=self)""", """        return JaxtypingTransformer(typechecker=Typechecker(None))""")], "C10")

# ---- variants modelled on independent sub-agent seeds (see /verif/seeded/)
SEEDS["C16_skip_already_seen_leaf_objects"] = ("C16", [(P, """        for leaf_index, leaf in enumerate(leaves):
            if cls.structure is None:""", """        checked_ids = set()
        for leaf_index, leaf in enumerate(leaves):
            if id(leaf) in checked_ids:
                continue
            checked_ids.add(id(leaf))
            if cls.structure is None:""")], "C16.6")
SEEDS["C12_flag_context_manager_without_finally"] = ("C12", [(S, """def set_treeflatten_memo():
    _treeflatten_storage.value = True
""", """def set_treeflatten_memo():
    _treeflatten_storage.value = True


import contextlib


@contextlib.contextmanager
def treeflatten_memo():
    was_flattening = get_treeflatten_memo()
    _treeflatten_storage.value = True
    yield
    _treeflatten_storage.value = was_flattening
""")], "C12.1")
TWINS["C12_twin_flag_context_manager_with_finally"] = ("C12", [(S, """def set_treeflatten_memo():
    _treeflatten_storage.value = True
""", """def set_treeflatten_memo():
    _treeflatten_storage.value = True


import contextlib


@contextlib.contextmanager
def treeflatten_memo():
    was_flattening = get_treeflatten_memo()
    _treeflatten_storage.value = True
    try:
        yield
    finally:
        _treeflatten_storage.value = was_flattening
""")])

# ------------------------------------------------------------------------- C10
SEEDS["C10_function_decorator_outermost"] = ("C10", [(H, "        node.decorator_list.append(decorator)", "        node.decorator_list.insert(0, decorator)")], "C10.2")
SEEDS["C10_class_decorator_innermost"] = ("C10", [(H, "        node.decorator_list.insert(0, decorator)", "        node.decorator_list.append(decorator)")], "C10.2")
SEEDS["C10_copy_location_swapped"] = ("C10", [(H, """        decorator = self._typechecker.get_ast()
        ast.copy_location(decorator, node)
        # Place at the end""", """        decorator = self._typechecker.get_ast()
        ast.copy_location(node, decorator)
        # Place at the end""")], "C10.3")
SEEDS["C10_no_generic_visit_in_class"] = ("C10", [(H, """        node.decorator_list.insert(0, decorator)
        self._parents.append(node)
        self.generic_visit(node)
        self._parents.pop()
        return node""", """        node.decorator_list.insert(0, decorator)
        return node""")], "C10.4")
SEEDS["C10_generic_visit_conditional"] = ("C10", [(H, """        node.decorator_list.append(decorator)

        self._parents.append(node)
        self.generic_visit(node)
        self._parents.pop()
        return node""", """        node.decorator_list.append(decorator)

        if len(self._parents) < 2:
            self._parents.append(node)
            self.generic_visit(node)
            self._parents.pop()
        return node""")], "C10.4")
SEEDS["C10_visit_returns_none"] = ("C10", [(H, """        self._parents.append(node)
        self.generic_visit(node)
        self._parents.pop()
        return node

    def visit_ClassDef""", """        self._parents.append(node)
        self.generic_visit(node)
        self._parents.pop()

    def visit_ClassDef""")], "C10.4")
SEEDS["C10_get_ast_cached"] = ("C10", [(H, """    def get_ast(self):""", """    @ft.lru_cache(maxsize=None)
    def get_ast(self):""")], "C10.5")
SEEDS["C10_import_before_future"] = ("C10", [(H, """            if isinstance(child, ast.ImportFrom) and child.module == "__future__":
                continue
            elif isinstance(child, ast.Expr) and isinstance(child.value, ast.Constant):""", """            if isinstance(child, ast.Expr) and isinstance(child.value, ast.Constant):""")], "C10.2")
SEEDS["C10_import_after_all_imports"] = ("C10", [(H, """            if isinstance(child, ast.ImportFrom) and child.module == "__future__":""", """            if isinstance(child, (ast.ImportFrom, ast.Import)):""")], "C10.2")
SEEDS["C10_skips_any_expr"] = ("C10", [(H, """            elif isinstance(child, ast.Expr) and isinstance(child.value, ast.Constant):""", """            elif isinstance(child, ast.Expr):""")], "C10.2")
SEEDS["C10_async_visitor_added"] = ("C10", [(H, """class _JaxtypingLoader(SourceFileLoader):""", """    def visit_AsyncFunctionDef(self, node):
        decorator = self._typechecker.get_ast()
        ast.copy_location(decorator, node)
        node.decorator_list.append(decorator)
        self.generic_visit(node)
        return node


class _JaxtypingLoader(SourceFileLoader):""".replace("    def visit_AsyncFunctionDef", "def visit_AsyncFunctionDef", 0))], "C10.1")
SEEDS["C10_fix_missing_locations_dropped"] = ("C10", [(H, """        ast.fix_missing_locations(tree)
""", "")], "C10.7")
SEEDS["C10_strips_docstring_decorators"] = ("C10", [(H, """        decorator = self._typechecker.get_ast()
        ast.copy_location(decorator, node)
        node.decorator_list.insert(0, decorator)""", """        decorator = self._typechecker.get_ast()
        ast.copy_location(decorator, node)
        node.decorator_list.insert(0, decorator)
        node.lineno = decorator.lineno""")], "C10")
SEEDS["C10_no_break_after_insert"] = ("C10", [(H, """                node.body.insert(i, ast.Import(names=[ast.alias("jaxtyping", None)]))
                break""", """                node.body.insert(i, ast.Import(names=[ast.alias("jaxtyping", None)]))
                return self._finish(node)"""), (H, """    def visit_ClassDef(self, node: ast.ClassDef):""", """    def _finish(self, node):
        self.generic_visit(node)
        return node

    def visit_ClassDef(self, node: ast.ClassDef):""")], "C10.2")
SEEDS["C10_template_other_key"] = ("C10", [(H, """jaxtyping._import_hook.Typechecker.lookup['{self.hash}']""", """jaxtyping._import_hook.Typechecker.lookup['{self.get_hash}']""")], "C10.6")
SEEDS["C10_lookup_not_registered_for_none"] = ("C10", [(H, """            self.hash = "0"
            Typechecker.lookup[self.hash] = lambda x, *_, **__: x""", """            self.hash = "0\"""")], "C10.6")
SEEDS["C10_compile_inherits_flags"] = ("C10", [(H, """        return _call_with_frames_removed(
            compile, tree, path, "exec", dont_inherit=True, optimize=_optimize
        )""", """        return _call_with_frames_removed(
            compile, tree, path, "exec", optimize=_optimize
        )""")], "C10.7")
SEEDS["C10_nodetransformer_base"] = ("C10", [(H, "class JaxtypingTransformer(ast.NodeVisitor):", "class JaxtypingTransformer(ast.NodeTransformer):")], "C10.1")
TWINS["C10_twin_decorator_renamed"] = ("C10", [(H, """        decorator = self._typechecker.get_ast()
        ast.copy_location(decorator, node)
        node.decorator_list.insert(0, decorator)""", """        dec = self._typechecker.get_ast()
        ast.copy_location(dec, node)
        node.decorator_list.insert(0, dec)""")])
TWINS["C10_twin_predicate_reordered"] = ("C10", [(H, """            if isinstance(child, ast.ImportFrom) and child.module == "__future__":
                continue
            elif isinstance(child, ast.Expr) and isinstance(child.value, ast.Constant):
                continue  # module docstring""", """            if isinstance(child, ast.Expr) and isinstance(child.value, ast.Constant):
                continue  # module docstring
            elif child.module == "__future__" if isinstance(child, ast.ImportFrom) else False:
                continue""")])

# ------------------------------------------------------------------------- C03
SEEDS["C03_bfloat16_not_float"] = ("C03", [(A, "floats = float8 + [_bfloat16, _float16, _float32, _float64]", "floats = float8 + [_float16, _float32, _float64]")], "C03.1")
SEEDS["C03_substring_match"] = ("C03", [(A, "                    in_dtypes = dtype == cls_dtype", "                    in_dtypes = dtype in cls_dtype")], "C03.3")
SEEDS["C03_real_without_uints"] = ("C03", [(A, 'Real = _make_dtype(floats + uints + ints, "Real")', 'Real = _make_dtype(floats + ints, "Real")')], "C03.2")
SEEDS["C03_classname_typo"] = ("C03", [(A, 'UInt16 = _make_dtype(_uint16, "UInt16")', 'UInt16 = _make_dtype(_uint16, "Uint16")')], "C03.1")
SEEDS["C03_precision_wrong_string"] = ("C03", [(A, '_int16 = "int16"', '_int16 = "int32"')], "C03.1")
SEEDS["C03_num_with_bools"] = ("C03", [(A, 'Num = _make_dtype(uints + ints + floats + complexes, "Num")', 'Num = _make_dtype(bools + uints + ints + floats + complexes, "Num")')], "C03.2")
SEEDS["C03_integer_only_signed"] = ("C03", [(A, 'Integer = _make_dtype(uints + ints, "Integer")', 'Integer = _make_dtype(ints, "Integer")')], "C03.2")
SEEDS["C03_int_contains_uint8"] = ("C03", [(A, "ints = [_int2, _int4, _int8, _int16, _int32, _int64]", "ints = [_int2, _int4, _int8, _int16, _int32, _int64, _uint8]")], "C03.1")
SEEDS["C03_startswith_match"] = ("C03", [(A, "                    in_dtypes = dtype == cls_dtype", "                    in_dtypes = dtype.startswith(cls_dtype)")], "C03.3")
SEEDS["C03_miss_returns_empty"] = ("C03", [(A, """                if len(cls.dtypes) == 1:
                    return f"this array has dtype {dtype}, not {cls.dtypes[0]} as expected by the type hint"  # noqa: E501""", """                if len(cls.dtypes) == 1:
                    return \"\"""")], "C03.3")
SEEDS["C03_user_str_not_wrapped"] = ("C03", [(A, """        if isinstance(dtypes, (str, re.Pattern)):
            dtypes = (dtypes,)
        elif dtypes is not _any_dtype:""", """        if isinstance(dtypes, re.Pattern):
            dtypes = (dtypes,)
        elif dtypes is not _any_dtype:""")], "C03.4")
SEEDS["C03_export_missing"] = ("C03", [(I, """        Float64 as Float64,
        Inexact as Inexact,
        Int as Int,
        Int2 as Int2,
        Int4 as Int4,
        Int8 as Int8,
        Int16 as Int16,
        Int32 as Int32,
        Int64 as Int64,
        Integer as Integer,
        Key as Key,
        Num as Num,
        Real as Real,
        Shaped as Shaped,""", """        Float64 as Float64,
        Inexact as Inexact,
        Int as Int,
        Int4 as Int4,
        Int8 as Int8,
        Int16 as Int16,
        Int32 as Int32,
        Int64 as Int64,
        Integer as Integer,
        Key as Key,
        Num as Num,
        Real as Real,
        Shaped as Shaped,""")], "C03.1")
SEEDS["C03_inexact_without_complex"] = ("C03", [(A, 'Inexact = _make_dtype(floats + complexes, "Inexact")', 'Inexact = _make_dtype(floats, "Inexact")')], "C03.2")
SEEDS["C03_docs_promise_key_is_num"] = ("C03", [(DOC, "    - PRNG key: `Key`\n", ""), (DOC, "        - Any floating, integer, or unsigned integer: `Real`.", "        - Any floating, integer, or unsigned integer: `Real`.\n        - PRNG key: `Key`")], "C03.2")
TWINS["C03_twin_tables_as_tuples"] = ("C03", [(A, "complexes = [_complex64, _complex128]", "complexes = [_complex128, _complex64]")])
TWINS["C03_twin_real_reordered"] = ("C03", [(A, 'Real = _make_dtype(floats + uints + ints, "Real")', 'Real = _make_dtype(ints + uints + floats, "Real")')])

# ------------------------------------------------------------------------- C20
SEEDS["C20_reducer_not_registered"] = ("C20", [(A, "copyreg.pickle(_MetaAbstractArray, _pickle_array_annotation)\n", "")], "C20.1")
SEEDS["C20_reducer_replays_dtypes"] = ("C20", [(A, "return x.dtype.__getitem__, (x._getitem_args,)", "return _rebuild, (x.dtype, x.array_type, x.dim_str, x.dtypes)")], "C20.2")
SEEDS["C20_replays_merged_fields"] = ("C20", [(A, "return x.dtype.__getitem__, (x._getitem_args,)", "return x.dtype.__getitem__, ((x.array_type, x.dim_str),)")], "C20.3")
SEEDS["C20_getitem_args_after_rebind"] = ("C20", [(A, "                _getitem_args=(x, orig_dim_str),", "                _getitem_args=(array_type, dim_str),")], "C20.3")
SEEDS["C20_category_module_not_jaxtyping"] = ("C20", [(A, """    if getattr(typing, "GENERATING_DOCUMENTATION", "") in {"", "jaxtyping"}:
        _Cls.__module__ = "jaxtyping"
    else:
        _Cls.__module__ = "builtins\"""", """    _Cls.__module__ = "builtins\"""")], "C20.4")
SEEDS["C20_classname_typo"] = ("C20", [(A, 'UInt16 = _make_dtype(_uint16, "UInt16")', 'UInt16 = _make_dtype(_uint16, "Uint16")')], "C20.4")
SEEDS["C10_generic_visit_overridden"] = ("C10", [(H, """    def visit_ClassDef(self, node: ast.ClassDef):""", """    def generic_visit(self, node):
        for field in ("body", "orelse", "finalbody", "handlers"):
            for child in getattr(node, field, ()):
                if isinstance(child, ast.AST):
                    self.visit(child)
        return node

    def visit_ClassDef(self, node: ast.ClassDef):""")], "C10.1")
SEEDS["C10_docstring_truthiness"] = ("C10", [(H, """        for i, child in enumerate(node.body):
            if isinstance(child, ast.ImportFrom) and child.module == "__future__":""", """        has_doc = 1 if ast.get_docstring(node) else 0
        for i, child in enumerate(node.body):
            if i < has_doc:
                continue
            if isinstance(child, ast.ImportFrom) and child.module == "__future__":""")], "C10.2")
SEEDS["C19_decoration_time_switch"] = ("C19", [(D, """            full_fn = _apply_typechecker(typechecker, full_fn)
            param_fn = _apply_typechecker(typechecker, param_fn)""", """            if not config.jaxtyping_disable:
                full_fn = _apply_typechecker(typechecker, full_fn)
                param_fn = _apply_typechecker(typechecker, param_fn)""")], "C19.1")
SEEDS["C13_rollback_deletes_only_new_keys"] = ("C13", [(S, """                memo.clear()
                memo.update(new_memo)""", """                for name in [name for name in memo if name not in new_memo]:
                    del memo[name]""")], "C13.1")
SEEDS["C04_rollback_deletes_only_new_keys"] = ("C04", [(S, """                memo.clear()
                memo.update(new_memo)""", """                for name in [name for name in memo if name not in new_memo]:
                    del memo[name]""")], "C04.4")

# ------------------------------------------------------------------------- C14
SEEDS["C14_fixed_treepath_allowed"] = ("C14", [(A, """            if treepath:
                raise ValueError(
                    "Cannot have a fixed axis have tree-path dependence, e.g. `?4` is "
                    "not allowed."
                )
""", "")], "C14.4")
SEEDS["C14_typeerror_instead_of_valueerror"] = ("C14", [(A, """                raise ValueError(
                    "Cannot have a symbolic axis be anonymous, e.g. \"""", """                raise TypeError(
                    "Cannot have a symbolic axis be anonymous, e.g. \"""")], "C14.1")
SEEDS["C14_strip_before_isinstance"] = ("C14", [(A, """        array_type, dim_str = item
        if not isinstance(dim_str, str):
            raise ValueError(
                "Shape specification must be a string. Axes should be separated with "
                "spaces."
            )
        dim_str = dim_str.strip()""", """        array_type, dim_str = item
        dim_str = dim_str.strip()""")], "C14.2")
SEEDS["C14_question_only_after_star"] = ("C14", [(A, """                elif first_char == "?":
                    if treepath:""", """                elif first_char == "?" and variadic:
                    if treepath:""")], "C14.3")
SEEDS["C14_treepath_arm_tests_variadic_flag"] = ("C14", [(A, """                elif first_char == "?":
                    if treepath:""", """                elif first_char == "?":
                    if variadic:""")], "C14.3")
SEEDS["C14_flags_reset_in_loop"] = ("C14", [(A, """                elif elem.count("=") == 1:
                    _, elem = elem.split("=")""", """                elif elem.count("=") == 1:
                    _, elem = elem.split("=")
                    broadcastable = False""")], "C14")
SEEDS["C14_dollar_modifier_added"] = ("C14", [(A, """                elif first_char == "?":
                    if treepath:""", """                elif first_char == "$":
                    if anonymous:
                        raise ValueError("no")
                    anonymous = True
                    elem = elem[1:]
                elif first_char == "?":
                    if treepath:""")], "C14.3")
SEEDS["C14_second_variadic_accepted"] = ("C14", [(A, """            if index_variadic is not None:
                raise ValueError(
                    "Cannot use variadic specifiers (`*name` or `...`) "
                    "more than once."
                )
            index_variadic = index""", """            index_variadic = index""")], "C14.4")
SEEDS["C14_ellipsis_continue"] = ("C14", [(A, """            broadcastable = False
            variadic = True
            anonymous = True
            treepath = False
            dim_type = _DimType.named""", """            index_variadic = index
            dims.append(_anonymous_variadic_dim)
            continue""")], "C14.4")
SEEDS["C14_split_on_space"] = ("C14", [(A, "enumerate(dim_str.split())", 'enumerate(dim_str.split(" "))')], "C14.5")
SEEDS["C14_no_strip"] = ("C14", [(A, "        dim_str = dim_str.strip()\n        if isinstance(array_type, TypeVar):", "        if isinstance(array_type, TypeVar):")], "C14.5")
SEEDS["C14_elem0_without_len_guard"] = ("C14", [(A, """                if len(elem) == 0:
                    # This branch needed as just `_` is valid
                    break
                first_char = elem[0]""", """                first_char = elem[0]""")], "C14.2")
SEEDS["C14_broadcast_fixed_rejected"] = ("C14", [(A, """            if treepath:
                raise ValueError(
                    "Cannot have a fixed axis have tree-path dependence, e.g. `?4` is "
                    "not allowed."
                )""", """            if treepath:
                raise ValueError(
                    "Cannot have a fixed axis have tree-path dependence, e.g. `?4` is "
                    "not allowed."
                )
            if broadcastable:
                raise ValueError("no")""")], "C14.4")
TWINS["C14_twin_arms_reordered"] = ("C14", [(A, """                if first_char == "#":
                    if broadcastable:
                        raise ValueError(
                            "Do not use # twice to denote broadcastability, e.g. "
                            "`##foo` is not allowed"
                        )
                    broadcastable = True
                    elem = elem[1:]
                elif first_char == "*":
                    if variadic:
                        raise ValueError(
                            "Do not use * twice to denote accepting multiple "
                            "axes, e.g. `**foo` is not allowed"
                        )
                    variadic = True
                    elem = elem[1:]""", """                if first_char == "*":
                    if variadic:
                        raise ValueError(
                            "Do not use * twice to denote accepting multiple "
                            "axes, e.g. `**foo` is not allowed"
                        )
                    variadic = True
                    elem = elem[1:]
                elif first_char == "#":
                    if broadcastable:
                        raise ValueError(
                            "Do not use # twice to denote broadcastability, e.g. "
                            "`##foo` is not allowed"
                        )
                    broadcastable = True
                    elem = elem[1:]""")])

# ------------------------------------------------------------------------- C18
GETCODE = """        with patch(
            "importlib._bootstrap_external.cache_from_source",
            ft.partial(_optimized_cache_from_source, self._typechecker.get_hash()),
        ):
            return super().get_code(fullname)"""
SEEDS["C18_tag_without_hash"] = ("C18", [(H, 'optimization=f"jaxtyping9{typechecker_hash}"', 'optimization="jaxtyping9"')], "C18.1")
SEEDS["C18_patch_around_exec_module"] = ("C18", [(H, """    def get_code(self, fullname):""", """    def exec_module(self, module):"""), (H, "            return super().get_code(fullname)", "            return super().exec_module(module)")], "C18.3")
SEEDS["C18_builtin_hash"] = ("C18", [(H, 'self.hash = hashlib.md5(typechecker.encode("utf-8")).hexdigest()', 'self.hash = str(abs(hash(typechecker)))')], "C18.2")
SEEDS["C18_id_hash"] = ("C18", [(H, 'self.hash = hashlib.md5(typechecker.encode("utf-8")).hexdigest()', 'self.hash = hex(id(self))')], "C18.2")
SEEDS["C18_no_patch"] = ("C18", [(H, GETCODE, "        return super().get_code(fullname)")], "C18.3")
SEEDS["C18_patch_wrong_target"] = ("C18", [(H, '"importlib._bootstrap_external.cache_from_source",\n            ft.partial', '"importlib.util.cache_from_source",\n            ft.partial')], "C18.3")
SEEDS["C18_patch_only_source_to_code"] = ("C18", [(H, GETCODE, """        return super().get_code(fullname)"""), (H, """        tree = JaxtypingTransformer(typechecker=self._typechecker).visit(tree)""", """        with patch(
            "importlib._bootstrap_external.cache_from_source",
            ft.partial(_optimized_cache_from_source, self._typechecker.get_hash()),
        ):
            tree = JaxtypingTransformer(typechecker=self._typechecker).visit(tree)""")], "C18.3")
SEEDS["C18_override_path_stats"] = ("C18", [(H, """    def get_code(self, fullname):""", """    def path_stats(self, path):
        return {"mtime": 0, "size": None}

    def get_code(self, fullname):""")], "C18.4")
SEEDS["C18_hash_from_other_loader"] = ("C18", [(H, "ft.partial(_optimized_cache_from_source, self._typechecker.get_hash()),", 'ft.partial(_optimized_cache_from_source, "0"),')], "C18.1")
SEEDS["C18_manual_patch_without_finally"] = ("C18", [(H, GETCODE, """        with _patch_cache_from_source(self._typechecker.get_hash()):
            return super().get_code(fullname)"""), (H, "class Typechecker:\n    lookup = {}", """import contextlib
import importlib._bootstrap_external


@contextlib.contextmanager
def _patch_cache_from_source(typechecker_hash):
    original = importlib._bootstrap_external.cache_from_source
    importlib._bootstrap_external.cache_from_source = ft.partial(
        _optimized_cache_from_source, typechecker_hash
    )
    yield
    importlib._bootstrap_external.cache_from_source = original


class Typechecker:
    lookup = {}""")], "C18.5")
TWINS["C18_twin_manual_patch_with_finally"] = ("C18", [(H, GETCODE, """        with _patch_cache_from_source(self._typechecker.get_hash()):
            return super().get_code(fullname)"""), (H, "class Typechecker:\n    lookup = {}", """import contextlib
import importlib._bootstrap_external


@contextlib.contextmanager
def _patch_cache_from_source(typechecker_hash):
    original = importlib._bootstrap_external.cache_from_source
    importlib._bootstrap_external.cache_from_source = ft.partial(
        _optimized_cache_from_source, typechecker_hash
    )
    try:
        yield
    finally:
        importlib._bootstrap_external.cache_from_source = original


class Typechecker:
    lookup = {}""")])
TWINS["C18_twin_sha256"] = ("C18", [(H, 'self.hash = hashlib.md5(typechecker.encode("utf-8")).hexdigest()', 'self.hash = hashlib.sha256(typechecker.encode("utf-8")).hexdigest()')])

# ------------------------------------------------------------------------- C11
SEEDS["C11_raw_prefix"] = ("C11", [(H, 'module_name.startswith(module + ".")', 'module_name.startswith(module)')], "C11.2")
SEEDS["C11_substring"] = ("C11", [(H, 'if module_name == module or module_name.startswith(module + "."):', 'if module in module_name:')], "C11.2")
SEEDS["C11_only_equal"] = ("C11", [(H, 'if module_name == module or module_name.startswith(module + "."):', 'if module_name == module:')], "C11.2")
SEEDS["C11_loader_before_test"] = ("C11", [(H, """        if self.should_instrument(fullname):
            spec = self._original_pathfinder.find_spec(fullname, path, target)
            if spec is not None and isinstance(spec.loader, SourceFileLoader):""", """        spec = self._original_pathfinder.find_spec(fullname, path, target)
        if spec is not None and isinstance(spec.loader, SourceFileLoader):
            if True:""")], "C11.1")
SEEDS["C11_uninstall_removes_first_finder"] = ("C11", [(H, "            sys.meta_path.remove(self.hook)", "            sys.meta_path.pop(0)")], "C11.3")
SEEDS["C11_exit_uninstalls_only_without_error"] = ("C11", [(H, """    def __exit__(self, exc_type, exc_val, exc_tb):
        self.uninstall()""", """    def __exit__(self, exc_type, exc_val, exc_tb):
        if exc_type is None:
            self.uninstall()""")], "C11.3")
SEEDS["C11_hook_appended_last"] = ("C11", [(H, "    sys.meta_path.insert(0, hook)", "    sys.meta_path.append(hook)")], "C11.3")
SEEDS["C11_global_checker"] = ("C11", [(H, """                spec.loader = _JaxtypingLoader(
                    spec.loader.name, spec.loader.path, typechecker=self._typechecker
                )""", """                spec.loader = _JaxtypingLoader(
                    spec.loader.name, spec.loader.path, typechecker=_current_typechecker
                )"""), (H, "class Typechecker:\n    lookup = {}", "_current_typechecker = None\n\n\nclass Typechecker:\n    lookup = {}")], "C11.4")
SEEDS["C11_pytest_plugin_order"] = ("C11", [(T, "    *packages, typechecker = packages", "    typechecker, *packages = packages")], "C11.5")
SEEDS["C11_magic_keeps_old_transformers"] = ("C11", [(X, "                    lambda x: not isinstance(x, JaxtypingTransformer),", "                    lambda x: isinstance(x, JaxtypingTransformer),")], "C11.5")
SEEDS["C11_names_normalised_by_prefix"] = ("C11", [(H, """    if isinstance(modules, str):
        modules = [modules]
""", """    if isinstance(modules, str):
        modules = [modules]
    modules = [m for m in modules if not any(m != o and m.startswith(o) for o in modules)]
""")], "C11.1")
SEEDS["C11_reuses_existing_finder"] = ("C11", [(H, """    hook = _JaxtypingFinder(modules, finder, wrapped_typechecker)
    sys.meta_path.insert(0, hook)
    return ImportHookManager(hook)""", """    for existing in sys.meta_path:
        if isinstance(existing, _JaxtypingFinder) and existing.modules == modules:
            return ImportHookManager(existing)
    hook = _JaxtypingFinder(modules, finder, wrapped_typechecker)
    sys.meta_path.insert(0, hook)
    return ImportHookManager(hook)""")], "C11.3")
TWINS["C11_twin_any_form"] = ("C11", [(H, """        for module in self.modules:
            if module_name == module or module_name.startswith(module + "."):
                return True

        return False""", """        return any(
            module_name == module or module_name.startswith(f"{module}.")
            for module in self.modules
        )""")])

# ------------------------------------------------------------------------- C01
SEEDS["C01_eval_on_live_memo"] = ("C01", [(A, "                eval_size = eval(elem, single_memo.copy())", "                eval_size = eval(elem, single_memo)")], "C01.3")
SEEDS["C01_slice_disagreement"] = ("C01", [(A, "                    variadic_memo[name] = (broadcastable, obj.shape[i:j])", "                    variadic_memo[name] = (broadcastable, obj.shape[i:])")], "C01.4")
SEEDS["C01_broadcast_without_size_one"] = ("C01", [(A, "        elif cls_dim.broadcastable and obj_size == 1:", "        elif cls_dim.broadcastable:")], "C01.2")
SEEDS["C01_fixed_less_than"] = ("C01", [(A, "            if cls_dim.size != obj_size:", "            if cls_dim.size < obj_size:")], "C01.2")
SEEDS["C01_nameerror_returns_message"] = ("C01", [(A, """            except NameError as e:
                raise AnnotationError(
                    f"Cannot process symbolic axis '{cls_dim.elem}' as "
                    "some axis names have not been processed. "
                    "Have you applied the `jaxtyped` decorator? "
                    "In practice you should usually only use symbolic axes in "
                    "annotations for return types, referring only to axes "
                    "annotated for arguments."
                ) from e""", """            except NameError:
                return f"cannot evaluate {cls_dim.elem}\"""")], "C01.3")
SEEDS["C01_fstring_eval_hoisted"] = ("C01", [(A, """            try:
                # Support f-string syntax.
                # https://stackoverflow.com/a/53671539/22545467
                elem = eval(f"f'{cls_dim.elem}'", arg_memo.copy())""", """            elem = eval(f"f'{cls_dim.elem}'", arg_memo.copy())
            try:""")], "C01.3")
SEEDS["C01_suffix_slice_mismatch"] = ("C01", [(A, "                    cls.dims[j:], obj.shape[j:], single_memo, arg_memo", "                    cls.dims[j:], obj.shape[i:], single_memo, arg_memo")], "C01.4")
SEEDS["C01_rank_test_strict"] = ("C01", [(A, "            if len(obj.shape) < len(cls.dims) - 1:", "            if len(obj.shape) < len(cls.dims):")], "C01.6")
SEEDS["C01_rank_test_at_least"] = ("C01", [(A, "            if len(obj.shape) != len(cls.dims):", "            if len(obj.shape) < len(cls.dims):")], "C01.6")
SEEDS["C01_named_get_falsy"] = ("C01", [(A, """            try:
                cls_size = single_memo[name]
            except KeyError:
                single_memo[name] = obj_size
            else:
                if cls_size != obj_size:
                    return f"the size of dimension {cls_dim.name} is {obj_size} which does not equal the existing value of {cls_size}"  # noqa: E501""", """            cls_size = single_memo.get(name)
            if not cls_size:
                single_memo[name] = obj_size
            elif cls_size != obj_size:
                return f"the size of dimension {cls_dim.name} is {obj_size} which does not equal the existing value of {cls_size}"  # noqa: E501""")], "C01.5")
SEEDS["C01_refinement_skipped_when_unchanged"] = ("C01", [(A, """                        variadic_memo[name] = (broadcastable, broadcast_shape)
                    else:""", """                        if broadcast_shape != prev_shape:
                            variadic_memo[name] = (broadcastable, broadcast_shape)
                    else:""")], "C01.5")
SEEDS["C01_refinement_keeps_old_flag"] = ("C01", [(A, """                        variadic_memo[name] = (broadcastable, broadcast_shape)
                    else:""", """                        variadic_memo[name] = (prev_broadcastable, broadcast_shape)
                    else:""")], "C01.5")
SEEDS["C01_new_kind_unhandled"] = ("C01", [(A, """                if variadic:
                    elem = _anonymous_variadic_dim
                else:
                    elem = _anonymous_dim""", """                if variadic:
                    elem = _anonymous_variadic_dim
                else:
                    elem = _AnyDim()"""), (A, "_not_made = object()", "_not_made = object()\n\n\nclass _AnyDim:\n    broadcastable = False\n")], "C01.1")
SEEDS["C01_broadcast_arm_after_fixed"] = ("C01", [(A, """        elif cls_dim.broadcastable and obj_size == 1:
            pass
        elif type(cls_dim) is _FixedDim:
            if cls_dim.size != obj_size:
                return f"the dimension size {obj_size} does not equal {cls_dim.size} as expected by the type hint"  # noqa: E501""", """        elif type(cls_dim) is _FixedDim:
            if cls_dim.size != obj_size:
                return f"the dimension size {obj_size} does not equal {cls_dim.size} as expected by the type hint"  # noqa: E501
        elif cls_dim.broadcastable and obj_size == 1:
            pass""")], "C01.2")
TWINS["C01_twin_isinstance_dispatch"] = ("C01", [(A, "        elif type(cls_dim) is _FixedDim:", "        elif isinstance(cls_dim, _FixedDim):")])
SEEDS["C13_fstring_eval_hoisted"] = ("C13", [(A, """            try:
                # Support f-string syntax.
                # https://stackoverflow.com/a/53671539/22545467
                elem = eval(f"f'{cls_dim.elem}'", arg_memo.copy())""", """            elem = eval(f"f'{cls_dim.elem}'", arg_memo.copy())
            try:""")], "C13.6")

# ------------------------------------------------------------------------- C02
SEEDS["C02_return_check_in_fresh_context"] = ("C02", [(D, """                    kwargs[output_name] = out
                    try:
                        full_fn(*args, **kwargs)""", """                    kwargs[output_name] = out
                    push_shape_memo(bound.arguments)
                    try:
                        full_fn(*args, **kwargs)""")], "C02.1")
SEEDS["C02_param_check_positional_only"] = ("C02", [(D, """                try:
                    param_fn(*args, **kwargs)
                except AnnotationError:""", """                try:
                    param_fn(*bound.args, **bound.kwargs)
                except AnnotationError:""")], "C02.2")
SEEDS["C02_param_signature_keeps_return"] = ("C02", [(D, "            param_signature = full_signature.replace(return_annotation=Any)", "            param_signature = full_signature")], "C02.3")
SEEDS["C02_dataclass_init_other_checker"] = ("C02", [(D, "            fn.__init__ = jaxtyped(fn.__init__, typechecker=typechecker)", "            fn.__init__ = jaxtyped(fn.__init__, typechecker=None)")], "C02.3")
SEEDS["C02_full_check_skipped_for_any"] = ("C02", [(D, """                    kwargs[output_name] = out
                    try:
                        full_fn(*args, **kwargs)""", """                    kwargs[output_name] = out
                    try:
                        if out is not None:
                            full_fn(*args, **kwargs)""")], "C02.1")
SEEDS["C02_refinement_keeps_old_flag"] = ("C02", [(A, """                        variadic_memo[name] = (broadcastable, broadcast_shape)
                    else:""", """                        variadic_memo[name] = (prev_broadcastable, broadcast_shape)
                    else:""")], "C02.4")
SEEDS["C02_array_no_restore_on_fail"] = ("C02", [(A, ARR_FAIL, """        else:
            return check""")], "C02.5")
SEEDS["C02_kwonly_kind_dropped"] = ("C02", [(D, """        elif p.kind == inspect.Parameter.KEYWORD_ONLY:
            key.append(p)
""", "")], "C02.3")
SEEDS["C02_impl_wrong_output_value"] = ("C02", [(D, "                    kwargs[output_name] = out\n", "                    kwargs[output_name] = bound\n")], "C02.2")
TWINS["C02_twin_noop"] = ("C02", [(D, "            param_signature = full_signature.replace(return_annotation=Any)", "            param_signature = full_signature.replace(return_annotation=Any)  # parameters only")])
SEEDS["C03_memoised_dtype_name"] = ("C03", [(A, """def _dtype_is_numpy_struct_array(dtype):""", """@ft.lru_cache(maxsize=None)
def _dtype_is_numpy_struct_array(dtype):""")], "ANALYSIS-ERROR")  # see C12_memoised_struct_test
SEEDS["C20_loader_interns_by_merged_fields"] = ("C20", [(A, "        return x.dtype.__getitem__, (x._getitem_args,)", "        return _unpickle_array_annotation, (x.dtype, x._getitem_args)"), (A, "def _pickle_array_annotation(x", """_unpickled = {}


def _unpickle_array_annotation(dtype, item):
    out = dtype[item]
    return _unpickled.setdefault((out.dtype, out.array_type, out.dim_str), out)


def _pickle_array_annotation(x""")], "C20.3")
SEEDS["C20_category_by_name"] = ("C20", [(A, "        return x.dtype.__getitem__, (x._getitem_args,)", "        return _unpickle_array_annotation, (x.dtype.__name__, x._getitem_args)"), (A, "def _pickle_array_annotation(x", """def _unpickle_array_annotation(dtype, item):
    return globals()[dtype][item]


def _pickle_array_annotation(x""")], "C20.3")
TWINS["C20_twin_pure_loader"] = ("C20", [(A, "        return x.dtype.__getitem__, (x._getitem_args,)", "        return _unpickle_array_annotation, (x.dtype, x._getitem_args)"), (A, "def _pickle_array_annotation(x", """def _unpickle_array_annotation(dtype, item):
    return dtype[item]


def _pickle_array_annotation(x""")])

# ------------------------------------------------------------------------- C17
SEEDS["C17_truthiness_of_result"] = ("C17", [(D, "                if full_signature.return_annotation is not inspect.Signature.empty:", "                if full_signature.return_annotation is not inspect.Signature.empty and out is not None and out:")], "C17.2")
SEEDS["C17_asarray_of_obj"] = ("C17", [(A, """        if cls.index_variadic is None:
            if len(obj.shape) != len(cls.dims):""", """        obj = np.asarray(obj)
        if cls.index_variadic is None:
            if len(obj.shape) != len(cls.dims):""")], "C17.1")
SEEDS["C17_weak_type_leniency"] = ("C17", [(A, """            if not in_dtypes:
                if len(cls.dtypes) == 1:""", """            if not in_dtypes and getattr(obj, "weak_type", False):
                in_dtypes = True
            if not in_dtypes:
                if len(cls.dtypes) == 1:""")], "C17.1")
SEEDS["C17_obj_attribute_weak_type"] = ("C17", [(A, """            if not in_dtypes:
                if len(cls.dtypes) == 1:""", """            if not in_dtypes and obj.weak_type:
                in_dtypes = True
            if not in_dtypes:
                if len(cls.dtypes) == 1:""")], "C17.1")
SEEDS["C17_second_eval_sees_arguments"] = ("C17", [(A, "                eval_size = eval(elem, single_memo.copy())", "                eval_size = eval(elem, single_memo.copy(), arg_memo.copy())")], "C17.3")
SEEDS["C17_leaf_equality"] = ("C17", [(P, """            if cls.structure is None:
                # No `?` annotations""", """            if leaf == 0:
                continue
            if cls.structure is None:
                # No `?` annotations""")], "C17.2")
SEEDS["C17_size_of_array"] = ("C17", [(A, """        if cls.index_variadic is None:
            if len(obj.shape) != len(cls.dims):""", """        if cls.index_variadic is None:
            if obj.size == 0:
                return \"\"
            if len(obj.shape) != len(cls.dims):""")], "C17.1")
SEEDS["C17_format_result_on_success"] = ("C17", [(D, """                # Actually call the function.
                out = fn(*args, **kwargs)
""", """                # Actually call the function.
                out = fn(*args, **kwargs)
                _ = _pformat(out, short_self=False)
""")], "C17.2")
TWINS["C17_twin_shape_len_hoisted"] = ("C17", [(A, """        if cls.index_variadic is None:
            if len(obj.shape) != len(cls.dims):""", """        rank = len(obj.shape)
        if cls.index_variadic is None:
            if rank != len(cls.dims):""")])

# ------------------------------------------------------------------------- C09
SEEDS["C09_unbound_composite_returns_false"] = ("C09", [(P, """                    except KeyError as e:
                        raise AnnotationError(
                            f"Cannot process composite structure '{cls.structure}' "
                            f"as the structure name {identifier} has not been seen "
                            "before."
                        ) from e""", """                    except KeyError:
                        return False""")], "C09.1")
SEEDS["C09_is_leaftype_catches_exception"] = ("C09", [(P, """                except TypeError:
                    return False
                else:
                    return True""", """                except Exception:
                    return False
                else:
                    return True""")], "C09.1")
SEEDS["C09_builder_typeerror"] = ("C09", [(P, """                if not isinstance(X.structure, str):
                    raise ValueError(""", """                if not isinstance(X.structure, str):
                    raise TypeError(""")], "C09.2")
SEEDS["C09_empty_string_accepted"] = ("C09", [(P, """                if len(pieces) == 0:
                    raise ValueError(
                        "The string `struct` in `jaxtyping.PyTree[leaftype, struct]` "
                        "cannot be the empty string."
                    )
""", "")], "C09.2")
SEEDS["C09_ellipsis_anywhere"] = ("C09", [(P, """                    if (piece_index == 0) or (piece_index == len(pieces) - 1):
                        if piece == "...":
                            continue""", """                    if piece == "...":
                        continue""")], "C09.2")
SEEDS["C09_tokenisation_mismatch"] = ("C09", [(P, "                pieces = X.structure.split()", '                pieces = X.structure.removeprefix("...").removesuffix("...").split()')], "C09.2")
SEEDS["C09_identifier_rebinds"] = ("C09", [(P, """                else:
                    if prev_structure != structure:
                        return False
            else:
                named_pytree = 0""", """                else:
                    if prev_structure != structure:
                        pytree_memo[cls.structure] = structure
            else:
                named_pytree = 0""")], "C09.3")
SEEDS["C09_modes_swapped"] = ("C09", [(P, """                    pieces = pieces[1:]
                    prefix = False
                    suffix = True""", """                    pieces = pieces[1:]
                    prefix = True
                    suffix = False""")], "C09.4")
SEEDS["C09_exact_uses_num_leaves"] = ("C09", [(P, """                    if structure != named_structure:
                        return False""", """                    if structure.num_leaves != named_structure.num_leaves:
                        return False""")], "C09.4")
SEEDS["C09_prefix_leafcount_early_out"] = ("C09", [(P, """                if prefix:
                    dummy_pytree""", """                if prefix and len(leaves) < named_structure.num_leaves:
                    return False
                if prefix:
                    dummy_pytree""")], "ANALYSIS-ERROR")
TWINS["C09_twin_message_reworded"] = ("C09", [(P, '"cannot be the empty string."', '"must not be empty."')])

# ------------------------------------------------------------------------- C15
SEEDS["C15_dims_order_swapped"] = ("C15", [(A, "        dims = dims + array_type.dims\n", "        dims = array_type.dims + dims\n")], "C15.1")
SEEDS["C15_dimstr_order_swapped"] = ("C15", [(A, '        dim_str = dim_str + " " + array_type.dim_str', '        dim_str = array_type.dim_str + " " + dim_str')], "C15.1")
SEEDS["C15_shift_after_concat"] = ("C15", [(A, """        if array_type.index_variadic is not None:
            if index_variadic is None:
                index_variadic = array_type.index_variadic + len(dims)
            else:
                raise ValueError(
                    "Cannot use variadic specifiers (`*name` or `...`) "
                    "in both the original array and the extended array"
                )
        dims = dims + array_type.dims""", """        outer_len = len(dims)
        dims = dims + array_type.dims
        if array_type.index_variadic is not None:
            if index_variadic is None:
                index_variadic = array_type.index_variadic + len(dims)
            else:
                raise ValueError(
                    "Cannot use variadic specifiers (`*name` or `...`) "
                    "in both the original array and the extended array"
                )""")], "C15.1")
SEEDS["C15_both_variadic_truthiness"] = ("C15", [(A, """            if index_variadic is None:
                index_variadic = array_type.index_variadic + len(dims)
            else:
                raise ValueError(
                    "Cannot use variadic specifiers (`*name` or `...`) "
                    "in both the original array and the extended array"
                )""", """            if index_variadic:
                raise ValueError(
                    "Cannot use variadic specifiers (`*name` or `...`) "
                    "in both the original array and the extended array"
                )
            index_variadic = array_type.index_variadic + len(dims)""")], "C15.1")
SEEDS["C15_union_not_intersection"] = ("C15", [(A, "            dtypes = tuple(x for x in dtypes if x in array_type.dtypes)", "            dtypes = tuple(dtypes) + tuple(x for x in array_type.dtypes if x not in dtypes)")], "C15.1")
SEEDS["C15_empty_intersection_allowed"] = ("C15", [(A, """            if len(dtypes) == 0:
                raise ValueError(
                    "A jaxtyping annotation cannot be extended with no overlapping "
                    "dtypes. For example, `Bool[Float[Array, 'dim1'], 'dim2']` is an "
                    "error. You probably want to make the outer wrapper be `Shaped`."
                )
""", "")], "C15.1")
SEEDS["C15_union_members_different_spec"] = ("C15", [(A, "            out = [_make_array(x, dim_str, cls) for x in get_args(array_type)]", '            out = [_make_array(x, dim_str if i == 0 else "...", cls) for i, x in enumerate(get_args(array_type))]')], "ANALYSIS-ERROR")
SEEDS["C15_typevar_constraints_first_only"] = ("C15", [(A, "                    array_type = Union[constraints]", "                    array_type = constraints[0]")], "C15.2")
SEEDS["C15_int_prefix_wrong"] = ("C15", [(A, """    elif array_type is int:
        if _check_scalar("int", dtypes, dims):""", """    elif array_type is int:
        if _check_scalar("", dtypes, dims):""")], "C15.3")
SEEDS["C15_scalar_substring_search"] = ("C15", [(A, "    return (_any_dtype is dtypes) or any(d.startswith(dtype) for d in dtypes)", "    return (_any_dtype is dtypes) or any(dtype in d for d in dtypes)")], "C15.3")
SEEDS["C15_scalar_rank_not_required"] = ("C15", [(A, """    for dim in dims:
        if dim is not _anonymous_variadic_dim and not isinstance(
            dim, _NamedVariadicDim
        ):
            return False
    return (_any_dtype""", """    return (_any_dtype""")], "C15.3")
SEEDS["C15_scalar_alias_wrong_shape"] = ("C15", [(I, '            return Shaped[jax.Array, ""]', '            return Shaped[jax.Array, "..."]')], "C15.4")
SEEDS["C15_prngkey_without_old_style"] = ("C15", [(I, '            return Union[Key[jax.Array, ""], UInt32[jax.Array, "2"]]', '            return Key[jax.Array, ""]')], "C15.4")
TWINS["C15_twin_comment"] = ("C15", [(A, "        dims = dims + array_type.dims\n", "        dims = dims + array_type.dims  # outer first\n")])
SEEDS["C20_sentinel_bare_object"] = ("C20", [(A, '_any_dtype = _Sentinel("_any_dtype")', "_any_dtype = object()")], "C20.5")
SEEDS["C20_sentinel_wrong_name"] = ("C20", [(A, '_anonymous_dim = _Sentinel("_anonymous_dim")', '_anonymous_dim = _Sentinel("_anonymous_variadic_dim")')], "C20.5")
SEEDS["C20_sentinel_no_deepcopy"] = ("C20", [(A, """    def __deepcopy__(self, memo):
        return self
""", "")], "C20.5")

# ------------------------------------------------------------------------- C08
SEEDS["C08_flatten_without_is_leaf"] = ("C08", [(P, "leaves, structure = jtu.tree_flatten(obj, is_leaf=is_flatten_leaftype)", "leaves, structure = jtu.tree_flatten(obj)")], "C08.2")
SEEDS["C08_accept_on_first_matching_leaf"] = ("C08", [(P, """                if not is_check_leaftype(leaf):
                    return False
            else:""", """                if is_check_leaftype(leaf):
                    return True
            else:""")], "C08.3")
SEEDS["C08_failing_leaf_ignored"] = ("C08", [(P, """                if not is_check_leaftype(leaf):
                    return False
            else:""", """                if not is_check_leaftype(leaf):
                    continue
            else:""")], "C08.3")
SEEDS["C08_skip_none_like_leaves"] = ("C08", [(P, """        for leaf_index, leaf in enumerate(leaves):
            if cls.structure is None:""", """        for leaf_index, leaf in enumerate(leaves):
            if leaf is None:
                continue
            if cls.structure is None:""")], "C08.3")
SEEDS["C08_none_rejected"] = ("C08", [(P, """        if obj is None:
            return True
""", "")], "C08.1")
SEEDS["C08_bare_pytree_rejects"] = ("C08", [(P, """        if not hasattr(cls, "leaftype"):
            return True  # Just `isinstance(x, PyTree)`""", """        if not hasattr(cls, "leaftype"):
            return False""")], "C08.1")
SEEDS["C08_leaf_isinstance_only"] = ("C08", [(P, """            @typechecked
            def accepts_leaftype(x: cls.leaftype):
                pass""", """            def accepts_leaftype(x: cls.leaftype):
                if not isinstance(x, cls.leaftype):
                    raise TypeError""")], "C08.4")
SEEDS["C08_leaf_predicate_catches_everything"] = ("C08", [(P, """                except TypeError:
                    return False
                else:
                    return True""", """                except Exception:
                    return False
                else:
                    return True""")], "C08.4")
SEEDS["C08_separate_flatten_predicate"] = ("C08", [(P, "            is_flatten_leaftype = is_check_leaftype = is_leaftype", """            is_check_leaftype = is_leaftype

            def is_flatten_leaftype(x):
                return False
""")], "C08.2")
SEEDS["C08_any_predicates_swapped"] = ("C08", [(P, """            def is_flatten_leaftype(x):
                return False

            def is_check_leaftype(x):
                return True""", """            def is_flatten_leaftype(x):
                return True

            def is_check_leaftype(x):
                return True""")], "C08.2")
SEEDS["C08_leaves_in_fresh_context"] = ("C08", [(P, """            @typechecked
            def accepts_leaftype(x: cls.leaftype):
                pass""", """            from ._decorator import jaxtyped

            @jaxtyped(typechecker=typechecked)
            def accepts_leaftype(x: cls.leaftype):
                pass""")], "C08")
SEEDS["C08_no_restore_on_reject"] = ("C08", [(P, PT_FAIL, """        else:
            return False""")], "C08.6")
SEEDS["C08_flatten_flag_not_set"] = ("C08", [(P, """        set_treeflatten_memo()
        try:""", """        try:""")], "C08.7")
SEEDS["C08_flatten_other_object"] = ("C08", [(P, "leaves, structure = jtu.tree_flatten(obj, is_leaf=is_flatten_leaftype)", "leaves, structure = jtu.tree_flatten((obj,), is_leaf=is_flatten_leaftype)")], "C08.2")
TWINS["C08_twin_positive_test"] = ("C08", [(P, """                if not is_check_leaftype(leaf):
                    return False
            else:""", """                if is_check_leaftype(leaf):
                    pass
                else:
                    return False
            else:""")])


# ------------------------------------------------------------------------- wave 3 (rules added after the third batch of independent seeds)
SEEDS["C07_note_unprotected"] = ("C07", [(D, """                    try:
                        # add_note api is support from python 3.11+
                        if sys.version_info >= (3, 11) and _no_jaxtyping_note(e):
                            shape_info = shape_str(memos)
                            if shape_info != "":
                                msg = (
                                    "The preceding error occurred within the scope of "
                                    "a `jaxtyping.jaxtyped` function, and may be due "
                                    "to a typecheck error. "
                                )
                                e.add_note(
                                    _jaxtyping_note_str(_spacer + msg + shape_info)
                                )
                    except Exception:
                        pass
                    raise""", """                    if sys.version_info >= (3, 11) and _no_jaxtyping_note(e):
                        shape_info = shape_str(memos)
                        if shape_info != "":
                            e.add_note(_jaxtyping_note_str(_spacer + shape_info))
                    raise""")], "C07.8")
SEEDS["C07_handler_swallows_body_exception"] = ("C07", [(D, """                    except Exception:
                        pass
                    raise""", """                    except Exception:
                        pass
                    return None""")], "C07")
SEEDS["C07_newstyle_translates_body_exception"] = ("C07", [(D, """                out = fn(*args, **kwargs)

                if full_signature""", """                try:
                    out = fn(*args, **kwargs)
                except Exception as e:
                    raise RuntimeError(f"{fn.__name__} failed") from e

                if full_signature""")], "C07.8")
TWINS["C07_twin_note_in_helper_protected"] = ("C07", [(D, """                    try:
                        # add_note api is support from python 3.11+
                        if sys.version_info >= (3, 11) and _no_jaxtyping_note(e):
                            shape_info = shape_str(memos)
                            if shape_info != "":
                                msg = (
                                    "The preceding error occurred within the scope of "
                                    "a `jaxtyping.jaxtyped` function, and may be due "
                                    "to a typecheck error. "
                                )
                                e.add_note(
                                    _jaxtyping_note_str(_spacer + msg + shape_info)
                                )
                    except Exception:
                        pass
                    raise""", """                    try:
                        _attach_note(e, memos)
                    except Exception:
                        pass
                    raise"""), (D, """def _no_jaxtyping_note(e: Exception) -> bool:""", """def _attach_note(e, memos):
    if sys.version_info >= (3, 11) and _no_jaxtyping_note(e):
        shape_info = shape_str(memos)
        if shape_info != "":
            e.add_note(_jaxtyping_note_str(_spacer + shape_info))


def _no_jaxtyping_note(e: Exception) -> bool:""")])
SEEDS["C18_fallback_uninstrumented"] = ("C18", [(H, """        tree = JaxtypingTransformer(typechecker=self._typechecker).visit(tree)
        ast.fix_missing_locations(tree)
        return _call_with_frames_removed(
            compile, tree, path, "exec", dont_inherit=True, optimize=_optimize
        )""", """        try:
            tree = JaxtypingTransformer(typechecker=self._typechecker).visit(tree)
            ast.fix_missing_locations(tree)
            return _call_with_frames_removed(
                compile, tree, path, "exec", dont_inherit=True, optimize=_optimize
            )
        except RecursionError:
            return super().source_to_code(data, path, _optimize=_optimize)""")], "C18.6")
SEEDS["C10_fallback_uninstrumented"] = ("C10", SEEDS["C18_fallback_uninstrumented"][1], "C10.7")
SEEDS["C18_fastpath_plain_compile"] = ("C18", [(H, """        tree = JaxtypingTransformer(typechecker=self._typechecker).visit(tree)""", """        if not any(isinstance(n, (ast.FunctionDef, ast.ClassDef)) for n in tree.body):
            return _call_with_frames_removed(compile, data, path, "exec", dont_inherit=True, optimize=_optimize)
        tree = JaxtypingTransformer(typechecker=self._typechecker).visit(tree)""")], "C18.6")
RESTORE_LOOP = """            if memo is not new_memo:
                memo.clear()
                memo.update(new_memo)"""
SEEDS["C04_restore_skipped_same_size"] = ("C04", [(S, RESTORE_LOOP, """            if memo is not new_memo and len(memo) != len(new_memo):
                memo.clear()
                memo.update(new_memo)""")], "C04.4")
SEEDS["C08_restore_skipped_same_size"] = ("C08", SEEDS["C04_restore_skipped_same_size"][1], "C08.6")
SEEDS["C05_restore_skipped_same_keys"] = ("C05", [(S, RESTORE_LOOP, """            if memo is not new_memo and memo.keys() != new_memo.keys():
                memo.clear()
                memo.update(new_memo)""")], "C05.4")
TWINS["C04_twin_restore_guard_flipped"] = ("C04", [(S, RESTORE_LOOP, """            if memo is new_memo:
                continue
            memo.clear()
            memo.update(new_memo)""")])

TWINS["C06_twin_confined_local_subclass"] = ("C06", [(S, """_shape_storage = threading.local()""", """class _PerThread(threading.local):
    \"\"\"Per-thread storage (no class-level state, no __init__ arguments).\"\"\"


_shape_storage = _PerThread()""")])
TWINS["C05_twin_confined_local_subclass"] = ("C05", TWINS["C06_twin_confined_local_subclass"][1])
SEEDS["C06_local_subclass_class_attribute"] = ("C06", [(S, """_shape_storage = threading.local()""", """class _PerThread(threading.local):
    memo_stack: list = []


_shape_storage = _PerThread()""")], "C06")


# ------------------------------------------------------------------------- wave 4: composed clauses and new rules
SEEDS["C03_split_first_dot"] = ("C03", [(A, """                *_, dtype = repr(obj.dtype).rsplit(".", 1)""", """                dtype = repr(obj.dtype).split(".", 1)[-1]""")], "C03.6")
SEEDS["C03_partition_first_dot"] = ("C03", [(A, """                *_, dtype = repr(obj.dtype).rsplit(".", 1)""", """                _, _, dtype = repr(obj.dtype).partition(".")""")], "C03.6")
TWINS["C03_twin_rsplit_index"] = ("C03", [(A, """                *_, dtype = repr(obj.dtype).rsplit(".", 1)""", """                dtype = repr(obj.dtype).rsplit(".", 1)[-1]""")])
TWINS["C03_twin_rpartition"] = ("C03", [(A, """                *_, dtype = repr(obj.dtype).rsplit(".", 1)""", """                dtype = repr(obj.dtype).rpartition(".")[2]""")])
SEEDS["C13_shape_str_merges_tables"] = ("C13", [(S, """    pieces = []
    if len(single_memo) > 0 or len(variadic_memo) > 0:""", """    single_memo = {**single_memo, **variadic_memo}
    variadic_memo = {}
    pieces = []
    if len(single_memo) > 0 or len(variadic_memo) > 0:""")], "C13.8")
SEEDS["C13_shape_str_drops_structures"] = ("C13", [(S, """        for name, structure in pytree_memo.items():
            pieces.append(f"{name}={structure}")""", """        pieces.append(f"{len(pytree_memo)} structure name(s) bound")""")], "C13.8")
for _p, _rule in (("C09", "C09.5"), ("C12", "C12.6")):
    SEEDS[f"{_p}_pytree_backup_alias"] = (_p, SEEDS["C04_restore_live_memo"][1], _rule)
    SEEDS[f"{_p}_pytree_exception_only"] = (_p, SEEDS["C04_pytree_exception_only"][1], _rule)
    SEEDS[f"{_p}_restore_skipped_same_size"] = (_p, SEEDS["C04_restore_skipped_same_size"][1], _rule)
SEEDS["C11_manual_patch_without_finally"] = ("C11", SEEDS["C18_manual_patch_without_finally"][1], "C11.6")
SEEDS["C11_patch_around_exec_module"] = ("C11", SEEDS["C18_patch_around_exec_module"][1], "C11.6")
SEEDS["C13_structureless_clears_label"] = ("C13", SEEDS["C16_structureless_clears_label"][1], "C13.7")
SEEDS["C02_eval_live_memo"] = ("C02", [(A, """                eval_size = eval(elem, single_memo.copy())""", """                eval_size = eval(elem, single_memo)""")], "C02.6")
SEEDS["C06_toplevel_fallback_state"] = ("C06", [(S, """def clear_treepath_memo() -> None:
    _treepath_storage.value = None""", """class _Fallback:
    value = None


_fallback_state = _Fallback()


def _state():
    return _fallback_state if not _has_shape_memo() else _treepath_storage


def clear_treepath_memo() -> None:
    _state().value = None""")], "C06")
SEEDS["C06_contextvar_mutable_default"] = ("C06", [(S, """_shape_storage = threading.local()""", """import contextvars

_scratch = contextvars.ContextVar("jaxtyping_scratch", default=[])
_shape_storage = threading.local()"""), (S, """def pop_shape_memo() -> None:
    _shape_storage.memo_stack.pop()""", """def pop_shape_memo() -> None:
    _scratch.get().append(_shape_storage.memo_stack.pop())""")], "C06")


# ------------------------------------------------------------------------- wave 5
SEEDS["C14_comma_check_on_whole_string"] = ("C14", [(A, """    for index, elem in enumerate(dim_str.split()):
        if "," in elem and "(" not in elem:
            # Common mistake.
            # Disable in the case that there's brackets to allow for function calls,
            # e.g. `min(foo,bar)`, in symbolic axes.
            raise ValueError("Axes should be separated with spaces, not commas")""", """    if "," in dim_str and "(" not in dim_str:
        raise ValueError("Axes should be separated with spaces, not commas")
    for index, elem in enumerate(dim_str.split()):""")], "C14.4")
SEEDS["C20_transparency_flag_in_namespace"] = ("C20", [(A, """                _getitem_args=(x, orig_dim_str),""", """                _getitem_args=(x, orig_dim_str),
                _skip_instancecheck=False,""")], "C20.6")
SEEDS["C20_reducer_falls_back_to_merged_fields"] = ("C20", [(A, """        return x.dtype.__getitem__, (x._getitem_args,)""", """        item = getattr(x, "_getitem_args", None)
        if item is None:
            item = (x.array_type, x.dim_str)
        return x.dtype.__getitem__, (item,)""")], "C20")
SEEDS["C17_skip_leaves_seen_by_id"] = ("C17", SEEDS["C16_skip_already_seen_leaf_objects"][1], "C17.4")


# ------------------------------------------------------------------------- batch 11 / F13 rules
# C01.3 staleness: the eval namespace is a copy taken once while the loop goes on binding axes into the copied memo
SEEDS["C01_eval_namespace_copied_once"] = ("C01", [(A, """    assert len(cls_dims) == len(obj_shape)
    for cls_dim, obj_size in zip(cls_dims, obj_shape):""", """    assert len(cls_dims) == len(obj_shape)
    sizes = single_memo.copy()
    for cls_dim, obj_size in zip(cls_dims, obj_shape):"""), (A, "                eval_size = eval(elem, single_memo.copy())", "                eval_size = eval(elem, sizes)")], "C01.3")
TWINS["C01_twin_argument_namespace_copied_once"] = ("C01", [(A, """    assert len(cls_dims) == len(obj_shape)
    for cls_dim, obj_size in zip(cls_dims, obj_shape):""", """    assert len(cls_dims) == len(obj_shape)
    arguments = arg_memo.copy()
    for cls_dim, obj_size in zip(cls_dims, obj_shape):"""), (A, """                elem = eval(f"f'{cls_dim.elem}'", arg_memo.copy())""", """                elem = eval(f"f'{cls_dim.elem}'", arguments)""")])
# C20.1 exact-type registration / C20.8 process-local tables
SEEDS["C20_submetaclass_not_registered"] = ("C20", [("@diff", "benign/V1/1.diff", None), (A, "copyreg.pickle(_MetaVariadicArray, _pickle_array_annotation)\n", "")], "C20.1")
SEEDS["C20_namespace_from_registration_order"] = ("C20", [(A, "def _dtype_is_numpy_struct_array(dtype):", """_name_ids: dict = {}


def _name_id(name):
    return _name_ids.setdefault(name, len(_name_ids))


def _dtype_is_numpy_struct_array(dtype):"""), (A, "    return (array_type, name, dtypes, dims, index_variadic, dim_str)", "    return (array_type, name, dtypes, dims, index_variadic, dim_str + ' ' * _name_id(name))")], "C20.8")
TWINS["C20_twin_pure_memo_table_while_building"] = ("C20", [(A, "def _dtype_is_numpy_struct_array(dtype):", """_type_strs: dict = {}


def _type_str(array_type):
    try:
        return _type_strs[array_type]
    except (KeyError, TypeError):
        pass
    try:
        out = array_type.__name__
    except AttributeError:
        return repr(array_type)
    _type_strs[array_type] = out
    return out


def _dtype_is_numpy_struct_array(dtype):"""), (A, """    try:
        type_str = array_type.__name__
    except AttributeError:
        type_str = repr(array_type)
    if _array_name_format""", """    type_str = _type_str(array_type)
    if _array_name_format""")])


def _independent_seeds():
    """Every independent seed (seeded/<PROP>_<k>/) that the check of its own property detects is also a self-validation seed: the
    instances confirmed once stay the reference for any later change of the rules.  (A patch that no longer applies to the current
    tree is reported as skipped, not as a failure.)"""
    import glob
    import json
    import os

    here = os.path.dirname(os.path.dirname(os.path.abspath(__file__)))
    for d in sorted(glob.glob(os.path.join(here, "seeded", "C[0-9][0-9]_*"))):
        try:
            meta = json.load(open(os.path.join(d, "meta.json"), encoding="utf-8"))
        except (OSError, ValueError):
            continue
        p = meta.get("property")
        if p and p in (meta.get("detected_by") or []):
            SEEDS["indep_" + os.path.basename(d)] = (p, [("@diff", os.path.join("seeded", os.path.basename(d), "patch.diff"), None)], p)


_independent_seeds()


# C15.3 in statement form (on top of benign/T2/2.diff: the rank-0 test as guard clauses `if <variadic>: continue` + `return False`,
# the sentinel test as a statement)
SEEDS["C15_stmt_form_substring_membership"] = ("C15", [("@diff", "benign/T2/2.diff", None), (A, "    return any(d.startswith(dtype) for d in dtypes)\n\n\nclass _MetaAbstractArray", "    return any(dtype in d for d in dtypes)\n\n\nclass _MetaAbstractArray")], "C15.3")
SEEDS["C15_stmt_form_named_variadic_rejected"] = ("C15", [("@diff", "benign/T2/2.diff", None), (A, "        if isinstance(dim, _NamedVariadicDim):\n            continue\n        return False", "        return False")], "C15.3")


# C05.9: per-frame state beside the stack
SEEDS["C05_per_frame_cache_beside_stack"] = ("C05", [(S, "    memo_stack.append(memos)\n    return memos", "    memo_stack.append(memos)\n    _shape_storage.scratch = {}\n    return memos")], "C05.9")
TWINS["C05_twin_initialised_flag_in_push"] = ("C05", [(S, "    memo_stack.append(memos)\n    return memos", "    memo_stack.append(memos)\n    _shape_storage.used = True\n    return memos")])


# C09.4 with the suffix comparison spelled as a loop (on top of benign/W5/2.diff)
SEEDS["C09_loop_form_suffix_comparison_dropped"] = ("C09", [("@diff", "benign/W5/2.diff", None), (P, "                        if not has_structure(dummy_leaf):\n                            return False", "                        pass")], "C09.4")
SEEDS["C09_loop_form_suffix_comparison_inverted"] = ("C09", [("@diff", "benign/W5/2.diff", None), (P, "                        if not has_structure(dummy_leaf):\n                            return False", "                        if has_structure(dummy_leaf):\n                            return False")], "ANALYSIS-ERROR")


# batch 12 / 13 rules with a direct positive control (the others are replayed from seeded/<id>/patch.diff as indep_<id>)
SEEDS["C02_defaults_not_applied"] = ("C02", [(D, """                bound = param_signature.bind(*args, **kwargs)
                bound.apply_defaults()
""", """                bound = param_signature.bind(*args, **kwargs)
""")], "C02.9")
SEEDS["C07_pop_raises_on_mismatch"] = ("C07", [(S, """def pop_shape_memo() -> None:
    _shape_storage.memo_stack.pop()""", """def pop_shape_memo() -> None:
    if not _shape_storage.memo_stack:
        raise RuntimeError("stack of contexts out of sync")
    _shape_storage.memo_stack.pop()""")], "C07.10")
SEEDS["C20_category_dtypes_rebound_later"] = ("C20", [(A, "def _dtype_is_numpy_struct_array(dtype):", """def _add_dtype(category, name):
    category.dtypes = category.dtypes + (name,)


def _dtype_is_numpy_struct_array(dtype):""")], "C20.9")


# C08.4 with the leaf predicate lifted to module level (on top of benign/Z7/3.diff)
SEEDS["C08_lifted_predicate_catches_everything"] = ("C08", [("@diff", "benign/Z7/3.diff", None), (P, "        accepts_leaftype(x)\n    except TypeError:\n        return False", "        accepts_leaftype(x)\n    except Exception:\n        return False")], "C08.4")


# C16.2 with the memo key computed by an early-return helper (on top of benign/W7/4.diff): the helper forgets the leaf position
SEEDS["C16_key_helper_drops_the_tree_path"] = ("C16", [("@diff", "benign/W7/4.diff", None), (A, "    return get_treepath_memo() + dim.name\n", "    return dim.name\n")], "C16.2")
