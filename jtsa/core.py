"""Shared vocabulary of the jtsa static analyser: outcomes, findings, obligations.

Nothing in here (or anywhere in jtsa) imports or executes code from /repo: every
verdict is computed from source text parsed with `ast`.
"""
from __future__ import annotations

import ast
import dataclasses
import hashlib
import re
from typing import Any, Optional


class AnalysisError(Exception):
    """The analyser cannot decide: anchor vanished, floor not met, unknown shape.

    Never converted into a pass or a violation: the CLI exits 2.
    """


def norm(node: Any) -> str:
    """Normalised text of an AST node (formatting / line independent)."""
    if node is None:
        return "<none>"
    if isinstance(node, str):
        return node
    if isinstance(node, list):
        return "; ".join(norm(n) for n in node)
    try:
        s = ast.unparse(node)
    except Exception:  # pragma: no cover
        s = ast.dump(node)
    s = re.sub(r"\s+", " ", s).strip()
    return s


def short(node: Any, n: int = 110) -> str:
    s = norm(node)
    if len(s) > n:
        s = s[: n - 3] + "..."
    return s


@dataclasses.dataclass
class Finding:
    """One violation: a specific construct with the rule it breaks."""

    prop: str
    rule: str  # e.g. "C04.1"
    file: str  # repo-relative
    function: str  # qualified name
    construct: str  # normalised statement / expression
    message: str
    line: int = 0
    path: Optional[list] = None  # CFG path (list of strings) for path rules
    extra: Optional[dict] = None

    @property
    def key(self) -> str:
        # rule + function + normalised construct: independent of line numbers
        return f"{self.rule}|{self.function}|{self.construct}"

    @property
    def digest(self) -> str:
        return hashlib.sha1(self.key.encode()).hexdigest()[:10]

    def to_json(self) -> dict:
        d = dataclasses.asdict(self)
        d["key"] = self.key
        return d

    def render(self) -> str:
        loc = f"{self.file}:{self.line}" if self.line else self.file
        s = f"[{self.rule}] {loc} in {self.function}: {self.message}\n    construct: {self.construct}"
        if self.path:
            s += "\n    path: " + " -> ".join(self.path)
        return s


@dataclasses.dataclass
class Obligation:
    """One discharged (or failed) rule instance, written to the evidence file."""

    rule: str
    where: str
    what: str
    ok: bool = True

    def to_json(self) -> dict:
        return dataclasses.asdict(self)


class RuleContext:
    """Collects obligations, findings, notes and counters for one property run."""

    def __init__(self, prop: str, model, thorough: bool = False):
        self.prop = prop
        self.model = model
        self.thorough = thorough
        self.findings: list[Finding] = []
        self.obligations: list[Obligation] = []
        self.notes: list[str] = []
        self.counters: dict[str, int] = {}
        self.analysed_functions: set[str] = set()
        self.rules_run: list[str] = []
        self.errors: list[str] = []  # AnalysisErrors of isolated sub-rules

    def sub(self, fn, *args, **kwargs):
        """Run one sub-rule; an AnalysisError in it must not hide the findings of the other
        sub-rules (it still prevents a 'holds' verdict: see runner)."""
        try:
            return fn(*args, **kwargs)
        except AnalysisError as e:
            self.errors.append(str(e))
            return None
        except RecursionError:
            raise
        except Exception as e:  # a crash of one sub-rule is "no verdict" for it, not a verdict
            import traceback

            tb = traceback.extract_tb(e.__traceback__)[-1]
            self.errors.append(f"sub-rule {getattr(fn, '__name__', fn)} crashed on an unrecognised shape: {type(e).__name__}: {e} ({tb.filename.split('/')[-1]}:{tb.lineno})")
            return None

    def reuse(self, new_rule: str, fn, *args, **kwargs):
        """Run a sub-rule that belongs to another property as clause `new_rule` of this one: whatever
        it records (findings, obligations) is re-labelled; isolated like `sub`."""
        n_f, n_o = len(self.findings), len(self.obligations)
        try:
            return self.sub(fn, *args, **kwargs)
        finally:
            for f in self.findings[n_f:]:
                f.rule = new_rule
                if hasattr(f, "_key"):
                    del f._key
            for o in self.obligations[n_o:]:
                o.rule = new_rule

    # -- recording ---------------------------------------------------------
    def ok(self, rule: str, where: str, what: str) -> None:
        self.obligations.append(Obligation(rule, where, what, True))

    def bad(
        self,
        rule: str,
        fn,
        node,
        message: str,
        path: Optional[list] = None,
        construct: Optional[str] = None,
        extra: Optional[dict] = None,
    ) -> Finding:
        file, qn = _where(fn)
        f = Finding(
            prop=self.prop,
            rule=rule,
            file=file,
            function=qn,
            construct=construct if construct is not None else short(node, 200),
            message=message,
            line=getattr(node, "lineno", 0) or 0,
            path=path,
            extra=extra,
        )
        # de-duplicate on key
        for g in self.findings:
            if g.key == f.key:
                return g
        self.findings.append(f)
        self.obligations.append(Obligation(rule, f"{file}:{qn}", message, False))
        return f

    def note(self, s: str) -> None:
        self.notes.append(s)

    def count(self, name: str, n: int = 1) -> None:
        self.counters[name] = self.counters.get(name, 0) + n

    def floor(self, rule: str, name: str, minimum: int) -> None:
        """Fail closed if a rule matched fewer instances than confirmed by hand."""
        got = self.counters.get(name, 0)
        if got < minimum:
            raise AnalysisError(
                f"{rule}: instance count '{name}' = {got} is below the floor {minimum} "
                "confirmed by reading; the rule would pass vacuously"
            )

    def saw(self, fn) -> None:
        if fn is not None:
            self.analysed_functions.add(_where(fn)[1])


def _where(fn) -> tuple[str, str]:
    if fn is None:
        return ("<repo>", "<module>")
    if isinstance(fn, tuple):
        return fn
    file = getattr(fn, "file", None) or getattr(getattr(fn, "module", None), "relpath", "?")
    qn = getattr(fn, "qualname", None) or getattr(fn, "name", "?")
    return (file, qn)


def need(cond: Any, msg: str) -> Any:
    """Anchor assertion: failing it is an ANALYSIS-ERROR, never a verdict."""
    if not cond:
        raise AnalysisError(msg)
    return cond


def region(model, fn, depth: int = 3, skip_modules=("_storage",), stop=()):
    """fn plus the package-internal functions it (transitively, bounded) calls: the code that a
    rule anchored at `fn` has to look at once parts of fn were extracted into helpers.  Functions
    of the storage module (roles of their own), the vendored typeguard and the qualified names in
    `stop` are not entered."""
    out, seen = [], set()
    work = [(fn, 0)]
    while work:
        f, d = work.pop(0)
        if f.qualname in seen:
            continue
        seen.add(f.qualname)
        out.append(f)
        if d >= depth:
            continue
        for c in model.calls_in(f):
            t = model.resolve_call(f, c)
            tgt = None
            if t.kind == "func":
                tgt = t.target
            elif t.kind == "class":
                tgt = model.lookup_method(t.target, "__init__")
            if tgt is None or tgt.qualname in seen or tgt.qualname in stop:
                continue
            if tgt.module.short in skip_modules or tgt.module.short.startswith("_typeguard"):
                continue
            work.append((tgt, d + 1))
    return out
