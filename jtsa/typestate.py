"""Typestate analyses over the CFG product graph.

StackBalance: interprocedural push/pop balance of the binding-context stack, with
function summaries (a helper that returns with the context pushed on every path is an
acquirer; its callers are checked) -- conventions for exceptional edges:
  * out of the acquiring call: pre-state (the push did not happen),
  * out of the releasing call: post-state (pop is verified trivial by C05.4),
  * out of any other call: state unchanged, unless the callee has a summary.
"""
from __future__ import annotations

import ast
from typing import Optional

from .cfg import CFG, Flow
from .core import AnalysisError
from .model import FuncInfo, Model
from .roles import Roles, node_calls

LIMIT = 3


class Summary:
    __slots__ = ("normal", "exc", "touches", "flow", "cfg", "exc_cont")

    def __init__(self):
        self.normal: set = set()
        self.exc: set = set()
        self.exc_cont = None  # generator-based context managers: deltas applied when the block ended with an exception
        self.touches = False  # does the function (transitively) push/pop at all
        self.flow = None
        self.cfg = None

    def __repr__(self):
        return f"<Summary n={sorted(self.normal)} x={sorted(self.exc)} touches={self.touches}>"


class NoReturn:
    """Summary 'this function has no normal exit' computed on its own CFG."""

    def __init__(self, model: Model):
        self.m = model
        self.cache: dict = {}
        self.active: set = set()

    def fn_never_returns(self, f: FuncInfo) -> bool:
        if f.qualname in self.cache:
            return self.cache[f.qualname]
        if f.qualname in self.active:
            return False
        self.active.add(f.qualname)
        try:
            g = CFG(f, self.m, noreturn=lambda call, _f=f: self.call_never_returns(_f, call))
            res = g.exit.id not in g.reachable
            if g.has_yield or g.is_async:
                res = False
        finally:
            self.active.discard(f.qualname)
        self.cache[f.qualname] = res
        return res

    def call_never_returns(self, fn, call) -> bool:
        t = self.m.resolve_call(fn, call)
        if t.kind == "func":
            return self.fn_never_returns(t.target)
        return False

    def cfg(self, f: FuncInfo) -> CFG:
        return CFG(f, self.m, noreturn=lambda call: self.call_never_returns(f, call))


class StackBalance:
    def __init__(self, model: Model, roles: Roles, noret: Optional[NoReturn] = None):
        self.m = model
        self.r = roles
        self.noret = noret or NoReturn(model)
        self.summaries: dict = {}
        self.active: set = set()
        self.push_q = roles.push.qualname
        self.pop_q = roles.pop.qualname

    # effects of one call: (normal_deltas, exc_deltas)
    def call_effect(self, fn, call):
        t = self.m.resolve_call(fn, call)
        if t.kind == "func":
            q = t.target.qualname
            if q == self.push_q:
                return ({1}, {0}, True)
            if q == self.pop_q:
                return ({-1}, {-1}, True)
            s = self.summary(t.target)
            if s is None:  # recursion: assume balanced
                return ({0}, {0}, False)
            if not s.touches:
                return ({0}, {0}, False)
            if t.target.node and (self._is_gen(t.target)):
                return ({0}, {0}, False)
            return (set(s.normal) or {0}, set(s.exc) or {0}, True)
        if t.kind == "class":
            init = self.m.lookup_method(t.target, "__init__")
            if init is not None:
                s = self.summary(init)
                if s is not None and s.touches:
                    return (set(s.normal) or {0}, set(s.exc) or {0}, True)
        return ({0}, {0}, False)

    def _is_gen(self, f: FuncInfo) -> bool:
        from .model import walk_scope

        if isinstance(f.node, ast.AsyncFunctionDef):
            return True
        return any(isinstance(n, (ast.Yield, ast.YieldFrom)) for n in walk_scope(f.node))

    def with_effects(self, fn, node):
        """(enter_effect, exit_effect) of a with-item whose context manager class is internal."""
        e = node.ast
        if isinstance(e, ast.Call):
            t = self.m.resolve_call(fn, e)
            if t.kind == "class":
                en = self.m.lookup_method(t.target, "__enter__")
                ex = self.m.lookup_method(t.target, "__exit__")
                if en is not None and ex is not None:
                    se, sx = self.summary(en), self.summary(ex)
                    if se is not None and sx is not None and (se.touches or sx.touches):
                        return (se, sx)
            if t.kind == "func" and self._is_gen(t.target):
                s = self.summary(t.target)
                if s is not None and s.touches:
                    w = self.generator_cm_effects(t.target)
                    if w is None:
                        raise AnalysisError(
                            f"{fn.qualname}: `with {t.target.qualname}()` uses a generator-based context "
                            "manager that pushes/pops the binding context; this shape is not modelled"
                        )
                    return w
        return None

    def generator_cm_effects(self, h: FuncInfo):
        """`@contextmanager def h(): <enter>; yield; <exit>` split at its single yield: the part before the
        yield is the enter effect; what runs when the block ends normally / with an exception is the exit
        effect (Summary.normal / Summary.exc_cont)."""
        from .model import walk_scope

        if not any("contextmanager" in ast.unparse(d) for d in h.decorators):
            return None
        g = self.noret.cfg(h)
        ynodes = [n for n in g.live_nodes() if n.ast is not None and n.kind in ("stmt", "return") and any(isinstance(x, (ast.Yield, ast.YieldFrom)) for x in ast.walk(n.ast))]
        if len(ynodes) != 1:
            return None
        yn = ynodes[0]
        eff = {}
        for n in g.live_nodes():
            lst = []
            for c in (node_calls(n) if n.kind != "with_exit" else []):
                ne, xe, touch = self.call_effect(h, c)
                if touch:
                    lst.append((ne, xe))
            if n.kind in ("with_enter", "with_exit") and self.with_effects(h, n) is not None:
                return None  # nested managers inside a manager: not modelled
            eff[n.id] = lst
        NORMAL = ("n", "t", "f", "loop", "done", "ret", "brk", "cont", "caught")

        def transfer(node, st, kind, succ):
            phase, at_yield, d = st
            if abs(d) > LIMIT:
                return ()
            is_exc = kind not in NORMAL
            if node.kind in ("unwind", "dispatch"):
                return (st,)
            outs = {d}
            for ne, xe in eff.get(node.id, ()):
                outs = {a + x for a in outs for x in (xe if is_exc else ne)}
            if node is yn:
                return tuple(("post-x" if is_exc else "post-n", a, a) for a in outs)
            return tuple((phase, at_yield, a) for a in outs)

        fl = Flow(g, ("pre", None, 0), transfer)
        se, sx = Summary(), Summary()
        se.touches = sx.touches = True
        se.normal = {st[2] for st in fl.states_at(yn) if st[0] == "pre"}
        se.exc = {st[2] for ex in (g.exit_e, g.exit_b) for st in fl.states_at(ex) if st[0] == "pre"} or {0}
        if any(st[0] == "pre" for st in fl.states_at(g.exit)):
            return None  # can finish without yielding
        sx.normal = {st[2] - st[1] for st in fl.states_at(g.exit) if st[0] == "post-n"}
        sx.exc = {st[2] - st[1] for ex in (g.exit_e, g.exit_b) for st in fl.states_at(ex) if st[0] == "post-n"}
        # the block raised: whatever the generator does (re-raise or swallow), the delta applied on that path
        sx.exc_cont = {st[2] - st[1] for ex in (g.exit, g.exit_e, g.exit_b) for st in fl.states_at(ex) if st[0] == "post-x"}
        if not se.normal or not sx.normal or not sx.exc_cont:
            return None
        return (se, sx)

    def summary(self, f: FuncInfo) -> Optional[Summary]:
        q = f.qualname
        if q in self.summaries:
            return self.summaries[q]
        if q in self.active:
            return None
        if q in (self.push_q, self.pop_q):
            s = Summary()
            s.touches = True
            s.normal = {1} if q == self.push_q else {-1}
            s.exc = {0} if q == self.push_q else {-1}
            self.summaries[q] = s
            return s
        self.active.add(q)
        try:
            s = self._analyse(f)
        finally:
            self.active.discard(q)
        self.summaries[q] = s
        return s

    def _analyse(self, f: FuncInfo) -> Summary:
        s = Summary()
        g = self.noret.cfg(f)
        s.cfg = g
        # pre-compute per node effects
        eff: dict = {}
        weff: dict = {}
        any_touch = False
        for n in g.live_nodes():
            if n.kind == "with_exit":
                enter_nodes = None
            cs = node_calls(n) if n.kind != "with_exit" else []
            lst = []
            for i, c in enumerate(cs):
                ne, xe, touch = self.call_effect(f, c)
                if touch:
                    any_touch = True
                    # may something raise after this call returned, within the same node?
                    tail = (i < len(cs) - 1) or not _is_whole_value(n, c)
                    head = i > 0 or any(g.oracle.expr(a) for a in c.args) or any(
                        g.oracle.expr(k.value) for k in c.keywords
                    )
                    lst.append((c, ne, xe, tail, head))
            if n.kind in ("with_enter", "with_exit"):
                w = self.with_effects(f, n)
                if w is not None:
                    any_touch = True
                    weff[n.id] = w
            eff[n.id] = lst
        s.touches = any_touch
        if not any_touch:
            s.normal, s.exc = {0}, {0}
            return s

        def transfer(node, st, kind, succ):
            if abs(st) > LIMIT:
                return ()
            lst = eff.get(node.id, ())
            normal_states = {st}
            exc_states = {st} if not lst else set()
            for c, ne, xe, tail, head in lst:
                if head:  # something evaluated before this call may raise
                    exc_states |= normal_states
                # exception raised by this call (from each state reachable before it)
                for a in normal_states:
                    for d in xe:
                        exc_states.add(a + d)
                normal_states = {a + d for a in normal_states for d in ne}
                # exceptions raised after this call but within the same node
                if tail:
                    exc_states |= normal_states
            if lst and not exc_states:
                exc_states = {st}
            w = weff.get(node.id)
            if w is not None:
                se, sx = w
                if node.kind == "with_enter":
                    exc_states = exc_states | {a + d for a in normal_states for d in (se.exc or {0})}
                    normal_states = {a + d for a in normal_states for d in (se.normal or {0})}
                else:  # with_exit: the release happens on every out-edge
                    cont = node.info.get("cont")
                    exc_cont = getattr(sx, "exc_cont", None)
                    if exc_cont is not None and isinstance(cont, tuple) and cont and cont[0] == "exc":
                        # generator-based manager, block ended with an exception: the post-yield exceptional part ran
                        normal_states = {a + d for a in normal_states for d in exc_cont}
                        exc_states = {a + d for a in {st} for d in exc_cont}
                    else:
                        all_d = (sx.normal or {0}) | (sx.exc or set())
                        normal_states = {a + d for a in normal_states for d in (sx.normal or {0})}
                        exc_states = {a + d for a in {st} for d in all_d}
            is_exc_edge = kind not in ("n", "t", "f", "loop", "done", "ret", "brk", "cont", "caught")
            if node.kind in ("unwind", "dispatch"):
                return (st,)
            if is_exc_edge and node.kind in ("raise", "assert") and not lst:
                return (st,)
            return tuple(exc_states if is_exc_edge else normal_states)

        fl = Flow(g, 0, transfer)
        s.flow = fl
        s.normal = set(fl.states_at(g.exit))
        s.exc = set(fl.states_at(g.exit_e)) | set(fl.states_at(g.exit_b))
        return s


def _is_whole_value(node, call) -> bool:
    """Is `call` the entire value of an Expr / Return / Assign-to-plain-names node (so that
    nothing can raise in this node once the call has returned)?"""
    a = node.ast
    if node.kind in ("stmt", "return"):
        if isinstance(a, (ast.Expr, ast.Return)):
            return a.value is call
        if isinstance(a, ast.Assign):
            return a.value is call and all(isinstance(t, ast.Name) for t in a.targets)
        if isinstance(a, ast.AnnAssign):
            return a.value is call and isinstance(a.target, ast.Name)
    return False
