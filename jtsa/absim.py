"""Abstract simulation of a CFG region over a finite abstract input class.

The rules that compare a decision procedure with a table from the property statement
(per-axis check, token validation, switch parser ...) need to be insensitive to how the
procedure is *spelled* (if/elif chain vs guard clauses with `continue`, try/else vs code after
the try, flipped tests).  Instead of matching syntax they walk the CFG: at every test node an
*oracle* answers the truth of the condition for the abstract input class (True / False / None =
unknown: both sides are explored), at every node that may raise a modelled exception the oracle
says whether it does.  The result is the set of outcomes (where the walk ended, which events
were seen on the way).
"""
from __future__ import annotations

import ast
from typing import Callable, Optional

from .core import AnalysisError, norm


class Outcome:
    def __init__(self, end, events, path, env=()):
        self.end = end  # Node where the walk stopped
        self.events = events  # tuple of event strings
        self.path = path
        self.env = dict(env)  # verdict variables: name -> 'empty' | 'nonempty' (string results carried in locals)


# Verdict variables: a decision procedure split into helpers (or inlined back from them) carries its
# result in a local -- `check = ""` / `check = f"..."` ... `if check != "": return check`.  The walk
# tracks which locals hold the empty / a non-empty string constant and decides tests of them.
_ENV: dict = {}


def _absval(v, env):
    if isinstance(v, ast.Constant) and isinstance(v.value, str):
        return "empty" if v.value == "" else "nonempty"
    if isinstance(v, ast.JoinedStr):
        return "nonempty" if any(isinstance(x, ast.Constant) and x.value for x in v.values) else None
    if isinstance(v, ast.Name):
        return env.get(v.id)
    if isinstance(v, ast.Constant) and isinstance(v.value, bool):
        return "true" if v.value else "false"
    sym = _symconst(v)
    if sym is not None:
        return sym
    return None


def _symconst(v):
    """`Mode.PREFIX` (a member of a class: two members of one class are distinct objects when they are spelled
    differently -- enum members, class-level sentinels) / an int literal, as an abstract constant."""
    if isinstance(v, ast.Attribute) and isinstance(v.value, ast.Name) and v.value.id.lstrip("_")[:1].isupper() and v.attr.isupper():
        return f"sym:{v.value.id}.{v.attr}"
    if isinstance(v, ast.Constant) and isinstance(v.value, int) and not isinstance(v.value, bool):
        return f"sym:int:{v.value}"
    return None


def env_truth(e):
    """Truth of a test of a verdict variable under the current walk, else None."""
    env = _ENV
    if isinstance(e, ast.Name) and e.id in env:
        return env[e.id] in ("nonempty", "true")
    if isinstance(e, ast.Compare) and len(e.ops) == 1 and isinstance(e.left, ast.Name) and e.left.id in env:
        c, op = e.comparators[0], e.ops[0]
        if env[e.left.id].startswith("sym:") and isinstance(op, (ast.Is, ast.IsNot, ast.Eq, ast.NotEq)):
            other = _symconst(c)
            if other is not None and other.rsplit(".", 1)[0] == env[e.left.id].rsplit(".", 1)[0] or (other is not None and other.startswith("sym:int:") and env[e.left.id].startswith("sym:int:")):
                v = other == env[e.left.id]
                return v if isinstance(op, (ast.Is, ast.Eq)) else not v
        if isinstance(c, ast.Constant) and c.value == "" and isinstance(op, (ast.Eq, ast.NotEq)) and env[e.left.id] in ("empty", "nonempty"):
            v = env[e.left.id] == "empty"
            return v if isinstance(op, ast.Eq) else not v
        if isinstance(c, ast.Constant) and c.value in (True, False) and isinstance(op, (ast.Is, ast.IsNot, ast.Eq, ast.NotEq)) and env[e.left.id] in ("true", "false"):
            v = (env[e.left.id] == "true") == bool(c.value)
            return v if isinstance(op, (ast.Is, ast.Eq)) else not v
    if isinstance(e, ast.Compare) and len(e.ops) == 1 and isinstance(e.left, ast.Call) and isinstance(e.left.func, ast.Name) and e.left.func.id == "len" \
            and e.left.args and isinstance(e.left.args[0], ast.Name) and e.left.args[0].id in env and isinstance(e.comparators[0], ast.Constant) and e.comparators[0].value == 0 \
            and env[e.left.args[0].id] in ("empty", "nonempty"):
        empty = env[e.left.args[0].id] == "empty"
        op = e.ops[0]
        if isinstance(op, ast.Eq):
            return empty
        if isinstance(op, (ast.NotEq, ast.Gt)):
            return not empty
    return None

    def __repr__(self):
        return f"<Outcome end={self.end!r} events={self.events}>"


def eval_bool(e, atom: Callable):
    """Three-valued evaluation of a boolean skeleton; atom(expr) -> True/False/None."""
    if isinstance(e, ast.BoolOp):
        # left to right with short circuit, as Python evaluates it: an operand after a deciding one is not evaluated (its atom oracle is
        # not asked -- `d is SENTINEL or d.attr` never reads the attribute of the sentinel); after an unknown operand the rest is still
        # evaluated, since it may decide the result
        unknown = False
        for v_ in e.values:
            val = eval_bool(v_, atom)
            if isinstance(e.op, ast.And):
                if val is False:
                    return False
            elif val is True:
                return True
            if val is None:
                unknown = True
            elif val not in (True, False):
                return val  # a marker such as 'unknown-compare'
        if unknown:
            return None
        return isinstance(e.op, ast.And)
    if isinstance(e, ast.UnaryOp) and isinstance(e.op, ast.Not):
        v = eval_bool(e.operand, atom)
        return None if v is None else (not v)
    if isinstance(e, ast.Constant):
        return bool(e.value)
    v = env_truth(e)
    if v is not None:
        return v
    return atom(e)


def simulate(cfg, start, stop: Callable, test_oracle: Callable, raise_oracle: Optional[Callable] = None,
             event_of: Optional[Callable] = None, limit: int = 4000, env0: Optional[dict] = None,
             bool_values: Optional[Callable] = None, for_exits: bool = False) -> list:
    """Walk from `start` until stop(node) is true.  test_oracle(node) -> True/False/None for
    test/while nodes; raise_oracle(node) -> None (does not raise) or an exception kind to follow
    (the node's edge labelled with that kind, or 'e').  event_of(node) -> str|None records events.
    Unknown conditions explore both branches; un-modelled exceptional edges are not followed.
    bool_values: atom oracle used to evaluate the right-hand side of `flag = <boolean expression>`
    (the local then is a verdict variable); for_exits: also follow the exit edge of `for` headers
    (zero or more iterations) instead of walking one iteration only."""
    outs = []
    stack = [(start, (), (), tuple(sorted((env0 or {}).items())))]
    seen = set()
    steps = 0
    while stack:
        node, events, path, env = stack.pop()
        steps += 1
        if steps > limit:
            raise AnalysisError("abstract simulation exceeded its step limit (loop without progress?)")
        key = (node.id, events, env)
        if key in seen:
            continue
        seen.add(key)
        path = path + (node,)
        _ENV.clear()
        _ENV.update(env)
        if stop(node):
            outs.append(Outcome(node, events, path, env))
            continue
        # verdict variables (on the normal continuation of an assignment)
        env_after = env
        if node.kind == "stmt" and isinstance(node.ast, (ast.Assign, ast.AnnAssign)):
            tgts = node.ast.targets if isinstance(node.ast, ast.Assign) else [node.ast.target]
            d = dict(env)
            for t in tgts:
                for x in ast.walk(t):
                    if isinstance(x, ast.Name):
                        d.pop(x.id, None)
            if len(tgts) == 1 and isinstance(tgts[0], ast.Name) and getattr(node.ast, "value", None) is not None:
                av = _absval(node.ast.value, dict(env))
                if av is None and bool_values is not None and isinstance(node.ast.value, (ast.Compare, ast.BoolOp, ast.UnaryOp)):
                    bv = eval_bool(node.ast.value, bool_values)
                    if bv is not None:
                        av = "true" if bv else "false"
                if av is not None:
                    d[tgts[0].id] = av
            env_after = tuple(sorted(d.items()))
        if event_of is not None:
            ev = event_of(node)
            if ev:
                events = events + (ev,)
        rk = raise_oracle(node) if raise_oracle is not None else None
        if isinstance(rk, tuple) and rk and rk[0] == "maybe":
            # may raise: the exceptional continuation is explored in addition to the normal one
            tgt = [s for k, s in node.succ if k == rk[1]] or [s for k, s in node.succ if k == "e"]
            if tgt:
                stack.append((_through_dispatch(tgt[0], rk[1]), events, path, env))
            rk = None
        if rk is not None:
            tgt = [s for k, s in node.succ if k == rk] or [s for k, s in node.succ if k == "e"]
            if not tgt:
                raise AnalysisError(f"abstract simulation: node `{node.text()}` has no exceptional edge for {rk}")
            # follow through dispatch nodes to the matching handler
            stack.append((_through_dispatch(tgt[0], rk), events, path, env))
            continue
        if node.kind in ("test", "while"):
            v = test_oracle(node)
            for k, s in node.succ:
                if k == "t" and v is not False:
                    stack.append((s, events, path, env))
                if k == "f" and v is not True:
                    stack.append((s, events, path, env))
            continue
        for k, s in node.succ:
            if k in ("n", "ret", "brk", "cont", "loop", "done", "fall", "caught"):
                if node.kind == "for" and k == "done" and not for_exits:
                    continue  # one iteration at a time: the caller decides what the header means
                stack.append((s, events, path, env_after))
    _ENV.clear()
    return outs


def _through_dispatch(node, kind):
    """From a dispatch node pick the handler that catches `kind` (a concrete class name)."""
    n = node
    hops = 0
    while n.kind == "dispatch" and hops < 5:
        hops += 1
        nxt = None
        for k, s in n.succ:
            if k == "caught" and s.kind == "handler":
                t = s.ast.type
                names = [] if t is None else [x.attr if isinstance(x, ast.Attribute) else getattr(x, "id", "?") for x in (t.elts if isinstance(t, ast.Tuple) else [t])]
                if t is None or kind in names or "Exception" in names or "BaseException" in names or (kind == "KeyError" and "LookupError" in names):
                    nxt = s
                    break
        if nxt is None:
            for k, s in n.succ:
                if k != "caught":
                    nxt = s
        if nxt is None:
            break
        n = nxt
    return n
