"""Abstract simulation of a CFG region over a finite abstract input class.

The rules that compare a decision procedure with a table from the property statement
(per-axis check, token validation, switch parser ...) need to be insensitive to how the
procedure is *spelled* (if/elif chain vs guard clauses with `continue`, try/else vs code after
the try, flipped tests).  Instead of matching syntax they walk the CFG: at every test node an
*oracle* answers the truth of the condition for the abstract input class (True / False / None =
unknown: both sides are explored), at every node that may raise a modelled exception the oracle
says whether it does.  The result is the set of outcomes (where the walk ended, which events
were seen on the way).
"""
from __future__ import annotations

import ast
from typing import Callable, Optional

from .core import AnalysisError, norm


class Outcome:
    def __init__(self, end, events, path):
        self.end = end  # Node where the walk stopped
        self.events = events  # tuple of event strings
        self.path = path

    def __repr__(self):
        return f"<Outcome end={self.end!r} events={self.events}>"


def eval_bool(e, atom: Callable):
    """Three-valued evaluation of a boolean skeleton; atom(expr) -> True/False/None."""
    if isinstance(e, ast.BoolOp):
        vals = [eval_bool(v, atom) for v in e.values]
        if isinstance(e.op, ast.And):
            if any(v is False for v in vals):
                return False
            return None if any(v is None for v in vals) else True
        if any(v is True for v in vals):
            return True
        return None if any(v is None for v in vals) else False
    if isinstance(e, ast.UnaryOp) and isinstance(e.op, ast.Not):
        v = eval_bool(e.operand, atom)
        return None if v is None else (not v)
    if isinstance(e, ast.Constant):
        return bool(e.value)
    return atom(e)


def simulate(cfg, start, stop: Callable, test_oracle: Callable, raise_oracle: Optional[Callable] = None,
             event_of: Optional[Callable] = None, limit: int = 4000) -> list:
    """Walk from `start` until stop(node) is true.  test_oracle(node) -> True/False/None for
    test/while nodes; raise_oracle(node) -> None (does not raise) or an exception kind to follow
    (the node's edge labelled with that kind, or 'e').  event_of(node) -> str|None records events.
    Unknown conditions explore both branches; un-modelled exceptional edges are not followed."""
    outs = []
    stack = [(start, (), ())]
    seen = set()
    steps = 0
    while stack:
        node, events, path = stack.pop()
        steps += 1
        if steps > limit:
            raise AnalysisError("abstract simulation exceeded its step limit (loop without progress?)")
        key = (node.id, events)
        if key in seen:
            continue
        seen.add(key)
        path = path + (node,)
        if stop(node):
            outs.append(Outcome(node, events, path))
            continue
        if event_of is not None:
            ev = event_of(node)
            if ev:
                events = events + (ev,)
        rk = raise_oracle(node) if raise_oracle is not None else None
        if rk is not None:
            tgt = [s for k, s in node.succ if k == rk] or [s for k, s in node.succ if k == "e"]
            if not tgt:
                raise AnalysisError(f"abstract simulation: node `{node.text()}` has no exceptional edge for {rk}")
            # follow through dispatch nodes to the matching handler
            stack.append((_through_dispatch(tgt[0], rk), events, path))
            continue
        if node.kind in ("test", "while"):
            v = test_oracle(node)
            for k, s in node.succ:
                if k == "t" and v is not False:
                    stack.append((s, events, path))
                if k == "f" and v is not True:
                    stack.append((s, events, path))
            continue
        for k, s in node.succ:
            if k in ("n", "ret", "brk", "cont", "loop", "done", "fall", "caught"):
                if node.kind == "for" and k == "done":
                    continue  # one iteration at a time: the caller decides what the header means
                stack.append((s, events, path))
    return outs


def _through_dispatch(node, kind):
    """From a dispatch node pick the handler that catches `kind` (a concrete class name)."""
    n = node
    hops = 0
    while n.kind == "dispatch" and hops < 5:
        hops += 1
        nxt = None
        for k, s in n.succ:
            if k == "caught" and s.kind == "handler":
                t = s.ast.type
                names = [] if t is None else [x.attr if isinstance(x, ast.Attribute) else getattr(x, "id", "?") for x in (t.elts if isinstance(t, ast.Tuple) else [t])]
                if t is None or kind in names or "Exception" in names or "BaseException" in names or (kind == "KeyError" and "LookupError" in names):
                    nxt = s
                    break
        if nxt is None:
            for k, s in n.succ:
                if k != "caught":
                    nxt = s
        if nxt is None:
            break
        n = nxt
    return n
