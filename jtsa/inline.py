"""Normalisation pass: helpers that are *new* with respect to the pinned tree are inlined into
their callers before the rules run.

The rules are anchored in the functions of the pinned tree (`_check_dims`, `_check_shape`,
`__instancecheck_str__`, `_make_array_cached` ...).  The commonest behaviour-preserving edit is to
extract part of such a function into a helper; the commonest defect-introducing edit that touches
structure does the same and changes something on the way.  Both are analysed best where the
code used to be: a call of a function that does not exist in the pinned inventory
(`jtsa/inventory.py`) is replaced by the callee's body, with parameters bound and clashing
locals renamed.  On the pinned tree every function is in the inventory, so the pass does nothing.

Forms handled (anything else is left as a call, i.e. today's behaviour):
  return H(...)                 -> body of H (its returns stay returns)
  x = H(...) / H(...)           -> body of H; a single trailing `return e` becomes `x = e`; several
                                   returns (none inside a loop of H) become `x = e; break` inside a
                                   synthetic `while True:` block
  ... H(...) ... in expressions -> when H is `return <expr>` only, the expression
H must be a plain module-level function, a method called on `self`/`cls`, or a local def of the
caller; no generators, async, decorators other than static/classmethod, *args/**kwargs,
global/nonlocal, recursion.
"""
from __future__ import annotations

import ast
import copy
from typing import Optional

from .model import FuncInfo, walk_scope

MAX_ROUNDS = 4
_counter = [0]


def _is_new(f: FuncInfo, inventory: set) -> bool:
    if f.qualname in inventory or f.module.short.startswith("_typeguard"):
        return False
    # a pinned function that was moved (into a class, out of one, into another function of the same
    # module) keeps its role under its name: not a helper to be dissolved
    mod = f.module.short + "."
    if any(q.startswith(mod) and q.rsplit(".", 1)[-1] == f.name for q in inventory):
        return False
    if _renamed_anchor(f) is not None:
        return False
    return True


_MODEL_FUNCS: dict = {"names": None}


def set_current_functions(names) -> None:
    _MODEL_FUNCS["names"] = set(names)
    _MODEL_FUNCS["funcs"] = dict(names) if isinstance(names, dict) else None


def _renamed_anchor(f: FuncInfo):
    """A pinned function of the same module that no longer exists and has exactly f's parameter
    list (at least one parameter): f is that function under a new name, not a new helper.  When several new
    functions have that parameter list, the one whose body resembles the pinned body (jtsa/alpha.py)."""
    try:
        from .inventory import SIGNATURES, FUNCTIONS
    except ImportError:
        return None
    try:
        from .inventory import BAGS
    except ImportError:
        BAGS = {}
    from .alpha import pick_renamed
    cur = _MODEL_FUNCS["names"]
    funcs = _MODEL_FUNCS.get("funcs")
    if cur is None or not f.params or isinstance(f.parent, FuncInfo):
        return None
    mod = f.module.short + "."
    for q, ps in SIGNATURES.items():
        if q.startswith(mod) and q not in cur and tuple(ps) == tuple(f.params) and "<locals>" not in q:
            if funcs is not None:
                cands = [g for q2, g in funcs.items() if g.module.short == f.module.short and q2 not in FUNCTIONS and tuple(g.params) == tuple(ps)
                         and "<locals>" not in q2]
                if pick_renamed(cands, BAGS.get(q)) is not f:
                    continue
            return q
    return None


def _decorator_kind(f: FuncInfo) -> Optional[str]:
    """'plain' | 'static' | 'class' | None (some other decorator: do not inline)."""
    kind = "plain"
    for d in f.decorators:
        if isinstance(d, ast.Name) and d.id == "staticmethod":
            kind = "static"
        elif isinstance(d, ast.Name) and d.id == "classmethod":
            kind = "class"
        else:
            return None
    return kind


ROLE_MODULES = ("_storage",)  # functions there carry roles (push/pop/get/set, flag set/clear) that the
# rules recognise at call sites and follow through delegates themselves: never inlined


def _resolve_for_inline(model, caller, call):
    """model.resolve_call, plus: `<chain>.name(..)` where exactly one class of the package defines a method `name`
    (and that class is a plain class) resolves to that method whatever the static type of the chain is."""
    t = model.resolve_call(caller, call)
    if t.kind == "func":
        return t
    if isinstance(call.func, ast.Attribute) and not call.func.attr.startswith("__"):
        owners = [c for c in model.classes.values() if call.func.attr in c.methods and not c.module.short.startswith("_typeguard")]
        if len(owners) == 1 and _unique_method(model, owners[0].methods[call.func.attr]):
            class R:
                pass

            r = R()
            r.kind, r.target, r.recv = "func", owners[0].methods[call.func.attr], call.func.value
            return r
    return t


def _unique_method(model, h: FuncInfo) -> bool:
    owners = [c for c in model.classes.values() if h.name in c.methods]
    if len(owners) != 1 or owners[0] is not h.cls:
        return False
    # external bases (ast.NodeTransformer, SourceFileLoader, ...) may call the method by protocol: only plain classes
    return all(norm_base(b) in ("object",) for b in h.cls.bases) and not h.cls.node.keywords


def _inlinable(model, h: FuncInfo, caller: Optional[FuncInfo] = None) -> bool:
    if h.module.short in ROLE_MODULES:
        # the storage module's API functions carry roles that are recognised at their call sites in other modules:
        # they stay.  A new *private* module-level helper used by them inside the module (`_top_frame()`) is ordinary
        # code of theirs -- and so is a new function that only *uses* the API (calls get / set / push, copies what it got)
        # without touching a module-level object of the storage module itself, when it is called from another module
        in_module_helper = caller is not None and caller.module is h.module and h.cls is None and h.parent is None and h.name.startswith("_") and not h.name.startswith("__")
        api_user = caller is not None and caller.module is not h.module and h.cls is None and h.parent is None and _fn_names_portable(model, h, caller, dry=True)
        if not (in_module_helper or api_user):
            return False
    elif caller is not None and caller.module is not h.module and h.cls is None and h.parent is None and isinstance(h.node, ast.FunctionDef):
        if not _fn_names_portable(model, h, caller, dry=True):
            return False
    if isinstance(h.parent, FuncInfo):
        # a local function defined more than once under one name (`if c: def f.. else: def f..`) or re-bound:
        # which body a call runs depends on the path
        same = [x for x in ast.walk(h.parent.node) if isinstance(x, (ast.FunctionDef, ast.AsyncFunctionDef)) and x.name == h.name and x is not h.parent.node]
        rebound = [x for x in ast.walk(h.parent.node) if isinstance(x, ast.Name) and x.id == h.name and isinstance(x.ctx, (ast.Store, ast.Del))]
        if len(same) != 1 or rebound:
            return False
    if h.cls is not None and (not h.name.startswith("_") or h.name.startswith("__")):
        # public / dunder methods may override or implement a protocol of a base class: dispatch, not a helper -- unless the
        # (non-dunder) name is defined by exactly one class of the package, whose bases are not package classes with such a
        # method and which is not subclassed with an override: then a call of it can only mean this body
        if h.name.startswith("__") or not (_unique_method(model, h) or _decorator_kind(h) in ("class", "static")):
            return False  # (class / static methods: _bind only accepts them when they are called on the class by name)
    n = h.node
    if not isinstance(n, ast.FunctionDef):
        return False
    if _decorator_kind(h) is None:
        return False
    a = n.args
    if a.vararg or a.kwarg:
        return False
    for x in walk_scope(n):
        if isinstance(x, (ast.Yield, ast.YieldFrom, ast.Await, ast.Global, ast.Nonlocal)):
            return False
        if isinstance(x, (ast.AsyncFunctionDef, ast.ClassDef)):
            return False
        if isinstance(x, (ast.FunctionDef, ast.Lambda)):
            # local functions move into the caller together with the locals they close over (renamed
            # consistently; names a local function binds itself are left alone inside it)
            if any(isinstance(y, (ast.Yield, ast.YieldFrom, ast.Await)) for y in ast.walk(x)) and False:
                return False
        if isinstance(x, ast.Call):
            t = model.resolve_call(h, x)
            if t.kind == "func" and t.target is h:
                return False
        if isinstance(x, ast.Name) and x.id in ("locals", "vars", "super", "__class__"):
            return False
    return True


def _fn_names_portable(model, h, caller, dry=False) -> bool:
    """Do the global names read by function h mean the same thing in the caller's module (same function / class / external object)?
    Functions and classes of h's own module that the caller's module does not bind are importable: with dry=False they are imported
    into the caller's module (the analysed program only).  A module-level *variable* of h's module is not portable."""
    own = h.module
    bound_ = {a.arg for a in ast.walk(h.node.args) if isinstance(a, ast.arg)} | {x.id for x in ast.walk(h.node) if isinstance(x, ast.Name) and isinstance(x.ctx, (ast.Store, ast.Del))}
    for x in ast.walk(h.node):
        if isinstance(x, (ast.Import, ast.ImportFrom)):
            for al in x.names:
                bound_.add((al.asname or al.name).split(".")[0])
    need_imports = set()
    for x in ast.walk(h.node):
        if not (isinstance(x, ast.Name) and isinstance(x.ctx, ast.Load)) or x.id in bound_:
            continue
        b1 = model.resolve_name(h, x.id)
        b2 = model.resolve_name(caller, x.id)
        if b1.kind == "builtin" and b2.kind == "builtin":
            continue
        if b1.kind in ("func", "class") and b2.kind == b1.kind and b1.target is b2.target:
            continue
        if b1.kind in ("ext", "module") and b2.kind == b1.kind and b1.target == b2.target:
            continue
        if b1.kind in ("func", "class") and b2.kind == "unknown" and b1.target.module is own and getattr(b1.target, "parent", None) is None and getattr(b1.target, "cls", None) is None:
            need_imports.add(x.id)
            continue
        return False
    if need_imports and not dry:
        umod = caller.module
        umod.tree.body.insert(0, ast.ImportFrom(module=own.short, names=[ast.alias(name=n_, asname=None) for n_ in sorted(need_imports)], level=1))
        ast.fix_missing_locations(umod.tree)
        umod.imports.update({n_: f"jaxtyping.{own.short}.{n_}" for n_ in need_imports})
    return True


def _returns(n) -> list:
    return [x for x in walk_scope(n) if isinstance(x, ast.Return)]


def _return_in_loop(node) -> bool:
    def rec(stmts, in_loop):
        for st in stmts:
            if isinstance(st, ast.Return) and in_loop:
                return True
            if isinstance(st, (ast.For, ast.While)):
                if rec(st.body, True) or rec(st.orelse, in_loop):
                    return True
            elif isinstance(st, ast.If):
                if rec(st.body, in_loop) or rec(st.orelse, in_loop):
                    return True
            elif isinstance(st, ast.Try):
                for b in [st.body, st.orelse, st.finalbody] + [h.body for h in st.handlers]:
                    if rec(b, in_loop):
                        return True
            elif isinstance(st, ast.With):
                if rec(st.body, in_loop):
                    return True
            elif isinstance(st, ast.Match):
                for c in st.cases:
                    if rec(c.body, in_loop):
                        return True
        return False

    return rec(node.body, False)


def _strip_doc(body: list) -> list:
    if body and isinstance(body[0], ast.Expr) and isinstance(body[0].value, ast.Constant) and isinstance(body[0].value.value, str):
        return body[1:]
    return body


def _can_fall_off(body: list) -> bool:
    if not body:
        return True
    last = body[-1]
    if isinstance(last, (ast.Return, ast.Raise)):
        return False
    if isinstance(last, ast.If) and last.orelse:
        return _can_fall_off(last.body) or _can_fall_off(last.orelse)
    if isinstance(last, ast.Try) and not last.finalbody:
        normal = last.orelse if last.orelse else last.body
        return _can_fall_off(normal) or any(_can_fall_off(h.body) for h in last.handlers)
    if isinstance(last, ast.While) and isinstance(last.test, ast.Constant) and last.test.value and not last.orelse \
            and not any(isinstance(x, ast.Break) for x in ast.walk(last)):
        return False
    return True


def _simple(e) -> bool:
    """Side-effect free and cheap enough to substitute for a parameter."""
    if isinstance(e, (ast.Name, ast.Constant)):
        return True
    if isinstance(e, ast.Attribute):
        return _simple(e.value)
    if isinstance(e, ast.Subscript):
        return _simple(e.value) and (isinstance(e.slice, (ast.Constant, ast.Name)) or (
            isinstance(e.slice, ast.Slice) and all(x is None or _simple(x) or isinstance(x, (ast.UnaryOp, ast.BinOp)) for x in (e.slice.lower, e.slice.upper, e.slice.step))))
    return False


def _bound_in(fn_node) -> set:
    """Names a nested function (or lambda) binds itself: its parameters and what it assigns (minus
    `nonlocal` names) -- inside it they refer to its own variables, not to the enclosing helper's."""
    out = {a.arg for a in ast.walk(fn_node.args) if isinstance(a, ast.arg)}
    nonloc = set()
    body = fn_node.body if isinstance(fn_node.body, list) else [fn_node.body]
    stack = list(body)
    while stack:
        n = stack.pop()
        if isinstance(n, (ast.FunctionDef, ast.AsyncFunctionDef, ast.ClassDef)):
            out.add(n.name)
            continue
        if isinstance(n, ast.Lambda):
            continue
        if isinstance(n, ast.Nonlocal):
            nonloc |= set(n.names)
        if isinstance(n, ast.Name) and isinstance(n.ctx, (ast.Store, ast.Del)):
            out.add(n.id)
        if isinstance(n, ast.ExceptHandler) and n.name:
            out.add(n.name)
        stack.extend(ast.iter_child_nodes(n))
    return out - nonloc


class _Subst(ast.NodeTransformer):
    def __init__(self, names: dict, renames: dict):
        self.names, self.renames = names, renames

    def visit_Name(self, n):
        if n.id in self.names and isinstance(n.ctx, ast.Load):
            return ast.copy_location(copy.deepcopy(self.names[n.id]), n)
        if n.id in self.renames:
            return ast.copy_location(ast.Name(id=self.renames[n.id], ctx=n.ctx), n)
        return n

    def visit_ExceptHandler(self, n):
        if n.name in self.renames:
            n.name = self.renames[n.name]
        return self.generic_visit(n)

    def _nested(self, n):
        # decorators / defaults are evaluated in the enclosing scope
        if hasattr(n, "decorator_list"):
            n.decorator_list = [self.visit(d) for d in n.decorator_list]
        n.args.defaults = [self.visit(d) for d in n.args.defaults]
        n.args.kw_defaults = [self.visit(d) if d is not None else None for d in n.args.kw_defaults]
        shadow = _bound_in(n)
        inner = _Subst({k: v for k, v in self.names.items() if k not in shadow}, {k: v for k, v in self.renames.items() if k not in shadow})
        if isinstance(n.body, list):
            n.body = [inner.visit(st) for st in n.body]
        else:
            n.body = inner.visit(n.body)
        if getattr(n, "name", None) in self.renames:
            n.name = self.renames[n.name]
        return n

    visit_FunctionDef = _nested
    visit_Lambda = _nested


def _bind(model, caller: FuncInfo, call: ast.Call, h: FuncInfo, targets=()):
    """(substitutions, prologue assignments, renames) or None.  `targets`: names the result of the
    call is assigned to -- a helper local of the same name needs no renaming (the caller's variable is
    overwritten by the assignment anyway) unless the arguments read it."""
    kind = _decorator_kind(h)
    a = h.node.args
    params = [x.arg for x in a.posonlyargs + a.args]
    kwonly = [x.arg for x in a.kwonlyargs]
    defaults = dict(zip(params[len(params) - len(a.defaults):], a.defaults)) if a.defaults else {}
    for p, d in zip(kwonly, a.kw_defaults):
        if d is not None:
            defaults[p] = d
    args = list(call.args)
    if any(isinstance(x, ast.Starred) for x in args) or any(k.arg is None for k in call.keywords):
        return None
    bound = {}
    if h.cls is not None and kind in ("plain", "class"):
        if not isinstance(call.func, ast.Attribute) or not params:
            return None
        recv = call.func.value
        # cls.h(...) / self.h(...) from a method of the same class only: calls through other objects keep
        # their abstraction (instance typing resolves them); Class.h(obj, ...) is not handled -- except for a method
        # whose name only one class of the package defines (`self._typechecker.get_transformer()`): the receiver chain
        # stands for `self` in the body
        own = caller
        while isinstance(own, FuncInfo) and own.cls is None:
            own = own.parent
        same_obj = isinstance(recv, ast.Name) and isinstance(own, FuncInfo) and own.params and own.params[0] == recv.id and own.cls is not None \
            and h.cls in [k for k in model.mro(own.cls)]
        by_class_name = False
        if kind == "class" and isinstance(recv, ast.Name):
            b_ = model.resolve_name(caller, recv.id)
            by_class_name = b_.kind == "class" and b_.target is h.cls  # `Finder.make(..)`: no dispatch, `cls` is that class
        if not h.name.startswith("_") and not (by_class_name or _unique_method(model, h)):
            return None
        if not same_obj and not by_class_name:
            if not _unique_method(model, h):
                return None
            # the body must use its receiver only through attribute reads / method calls on it (no rebinding, no escape)
            sp = params[0]
            for x in ast.walk(h.node):
                if isinstance(x, ast.Name) and x.id == sp and isinstance(x.ctx, (ast.Store, ast.Del)):
                    return None
        bound[params[0]] = recv
        params = params[1:]
    if len(args) > len(params):
        return None
    for p, v in zip(params, args):
        bound[p] = v
    for k in call.keywords:
        if k.arg in bound or k.arg not in params + kwonly:
            return None
        bound[k.arg] = k.value
    for p in params + kwonly:
        if p not in bound:
            if p not in defaults:
                return None
            bound[p] = defaults[p]
    assigned = set(h.local_names())
    # comprehension variables are scoped to their comprehension: no clash with the caller's names
    comp_only = set()
    for comp in [x for x in ast.walk(h.node) if isinstance(x, ast.comprehension)]:
        comp_only |= {y.id for y in ast.walk(comp.target) if isinstance(y, ast.Name)}
    stored_outside = set()
    for x in walk_scope(h.node):
        if isinstance(x, (ast.Assign, ast.AugAssign, ast.AnnAssign, ast.For, ast.With, ast.NamedExpr)):
            tg = x.targets if isinstance(x, ast.Assign) else [getattr(x, "target", None)] if not isinstance(x, ast.With) else [i.optional_vars for i in x.items]
            for t_ in tg:
                if t_ is not None:
                    stored_outside |= {y.id for y in ast.walk(t_) if isinstance(y, ast.Name)}
    assigned -= (comp_only - stored_outside)
    caller_names = {x.id for x in ast.walk(caller.node) if isinstance(x, ast.Name)} | set(caller.params)
    _counter[0] += 1
    tag = f"__i{_counter[0]}"
    subst, prologue, renames = {}, [], {}
    for p, v in bound.items():
        if isinstance(v, ast.Name) and v.id == p and p not in assigned:
            continue  # same name on both sides
        body_ = _strip_doc(list(h.node.body))
        once = len(body_) == 1 and isinstance(body_[0], ast.Return) and sum(1 for x in ast.walk(h.node) if isinstance(x, ast.Name) and x.id == p and isinstance(x.ctx, ast.Load)) == 1 \
            and len(bound) == 1
        if (_simple(v) or once) and p not in assigned:
            # (a one-expression helper that reads its only parameter exactly once: the argument expression is evaluated once, in place)
            subst[p] = v
        else:
            clash = p in caller_names and not (isinstance(v, ast.Name) and v.id == p)
            if clash and p in targets and not any(isinstance(x, ast.Name) and x.id == p for a_ in list(call.args) + [k.value for k in call.keywords] for x in ast.walk(a_)):
                clash = False  # the caller's variable of that name is overwritten by the result of this very call
            new = p + tag if clash else p
            if new != p:
                renames[p] = new
            if isinstance(v, ast.Name) and v.id == new:
                continue  # `p = p`: the parameter keeps standing for the caller's variable of the same name
            prologue.append(ast.copy_location(ast.Assign(targets=[ast.Name(id=new, ctx=ast.Store())], value=copy.deepcopy(v), lineno=call.lineno), call))
    hparams = set(bound)
    arg_names = {x.id for a_ in list(call.args) + [k.value for k in call.keywords] for x in ast.walk(a_) if isinstance(x, ast.Name)}
    # names the helper binds only through `import x` / `from m import x` stay as they are: importing the same module
    # under the same name twice is idempotent, and `jax.Array` must keep reading as `jax.Array`
    import_bound = set()
    for x in walk_scope(h.node):
        if isinstance(x, (ast.Import, ast.ImportFrom)):
            for al in x.names:
                import_bound.add((al.asname or al.name).split(".")[0])
    otherwise_bound = {y.id for y in walk_scope(h.node) if isinstance(y, ast.Name) and isinstance(y.ctx, (ast.Store, ast.Del))}
    import_only = import_bound - otherwise_bound
    for loc in assigned:
        if loc in hparams:
            continue
        if loc in targets and loc not in arg_names:
            continue
        if loc in import_only:
            continue
        if loc in caller_names:
            renames[loc] = loc + tag
    return subst, prologue, renames


def _body_of(h: FuncInfo, subst, renames) -> list:
    body = copy.deepcopy(_strip_doc(list(h.node.body)))
    tr = _Subst(subst, renames)
    return [tr.visit(st) for st in body]


def _tgt(target):
    """A fresh Store-context copy of the assignment target (a name or a tuple of names)."""
    if isinstance(target, str):
        return ast.Name(id=target, ctx=ast.Store())
    return copy.deepcopy(target)


def _assign(target, value, loc) -> list:
    """`target = value`; a tuple assigned to a tuple of names is split into one assignment per name
    when no later value reads an earlier target (so the order does not matter); `x = x` is dropped."""
    if isinstance(target, (ast.Tuple, ast.List)) and isinstance(value, (ast.Tuple, ast.List)) and len(target.elts) == len(value.elts) \
            and any(isinstance(t, (ast.Tuple, ast.List)) for t in target.elts) and not any(isinstance(v, ast.Starred) for v in value.elts) \
            and all(isinstance(v, (ast.Name, ast.Constant)) for v in value.elts):
        # `(a, b), c = (x, y)` with plain values: one assignment per element (the values are names: no evaluation order to keep)
        safe_ = True
        for i, t in enumerate(target.elts):
            written = {y.id for y in ast.walk(t) if isinstance(y, ast.Name)}
            for j, v in enumerate(value.elts):
                if j > i and isinstance(v, ast.Name) and v.id in written and not (isinstance(target.elts[j], ast.Name) and target.elts[j].id == v.id):
                    safe_ = False
        if safe_:
            out = []
            for t, v in zip(target.elts, value.elts):
                out.extend(_assign(t if not isinstance(t, ast.Name) else t.id, v, loc))
            return out or [ast.copy_location(ast.Pass(), loc)]
    if isinstance(target, (ast.Tuple, ast.List)) and isinstance(value, (ast.Tuple, ast.List)) and len(target.elts) == len(value.elts) \
            and all(isinstance(t, ast.Name) for t in target.elts) and not any(isinstance(v, ast.Starred) for v in value.elts):
        names = [t.id for t in target.elts]
        safe = True
        for i, t in enumerate(names):
            for j, v in enumerate(value.elts):
                if j > i and any(isinstance(x, ast.Name) and x.id == t for x in ast.walk(v)) and not (isinstance(v, ast.Name) and v.id == names[j]):
                    safe = False
        if safe:
            out = []
            for t, v in zip(names, value.elts):
                if isinstance(v, ast.Name) and v.id == t:
                    continue
                out.append(ast.copy_location(ast.Assign(targets=[ast.Name(id=t, ctx=ast.Store())], value=v, lineno=getattr(loc, "lineno", 1)), loc))
            return out or [ast.copy_location(ast.Pass(), loc)]
    tname = target if isinstance(target, str) else (target.id if isinstance(target, ast.Name) else None)
    if tname is not None and isinstance(value, ast.Name) and value.id == tname:
        return []  # `x = x`
    return [ast.copy_location(ast.Assign(targets=[_tgt(target)], value=value, lineno=getattr(loc, "lineno", 1)), loc)]


def _replace_returns(stmts: list, target, loc) -> list:
    """`return e` -> `target = e; break` (or `e; break` / `break`)"""
    out = []
    for st in stmts:
        if isinstance(st, ast.Return):
            if target is not None:
                v = st.value if st.value is not None else ast.Constant(value=None)
                out.extend(_assign(target, v, st))
            elif st.value is not None and not isinstance(st.value, (ast.Constant, ast.Name)):
                out.append(ast.copy_location(ast.Expr(value=st.value), st))
            out.append(ast.copy_location(ast.Break(), st))
            continue
        if isinstance(st, ast.If):
            st.body = _replace_returns(st.body, target, loc) or [ast.copy_location(ast.Pass(), st)]
            st.orelse = _replace_returns(st.orelse, target, loc)
        elif isinstance(st, ast.Try):
            st.body = _replace_returns(st.body, target, loc)
            st.orelse = _replace_returns(st.orelse, target, loc)
            st.finalbody = _replace_returns(st.finalbody, target, loc)
            for hd in st.handlers:
                hd.body = _replace_returns(hd.body, target, loc)
        elif isinstance(st, ast.With):
            st.body = _replace_returns(st.body, target, loc)
        elif isinstance(st, ast.Match):
            for cs in st.cases:
                cs.body = _replace_returns(cs.body, target, loc)
        out.append(st)
    return out


def _expand_stmt(model, caller: FuncInfo, st, inventory) -> Optional[list]:
    """Replacement statements for `st` if it is an inlinable call statement, else None."""
    call, mode, target = None, None, None
    if isinstance(st, ast.Return) and isinstance(st.value, ast.Call):
        call, mode = st.value, "tail"
    elif isinstance(st, ast.Assign) and len(st.targets) == 1 and isinstance(st.targets[0], ast.Name) and isinstance(st.value, ast.Call):
        call, mode, target = st.value, "assign", st.targets[0].id
    elif isinstance(st, ast.Assign) and len(st.targets) == 1 and isinstance(st.targets[0], (ast.Tuple, ast.List)) and isinstance(st.value, ast.Call) \
            and all(isinstance(e, ast.Name) or (isinstance(e, (ast.Tuple, ast.List)) and all(isinstance(e2, ast.Name) for e2 in e.elts)) for e in st.targets[0].elts):
        call, mode, target = st.value, "assign", st.targets[0]  # (one level of nesting: `(a, b), c = H()`)
    elif isinstance(st, ast.Assign) and len(st.targets) == 1 and isinstance(st.targets[0], ast.Attribute) and _simple(st.targets[0].value) and isinstance(st.value, ast.Call):
        call, mode, target = st.value, "assign", st.targets[0]  # `obj.attr = H(...)`
    elif isinstance(st, ast.AnnAssign) and isinstance(st.target, ast.Name) and isinstance(st.value, ast.Call):
        call, mode, target = st.value, "assign", st.target.id
    elif isinstance(st, ast.Expr) and isinstance(st.value, ast.Call):
        call, mode = st.value, "expr"
    if call is None:
        return None
    t = _resolve_for_inline(model, caller, call)
    if t.kind != "func" or not _is_new(t.target, inventory) or t.target is caller or not _inlinable(model, t.target, caller):
        return None
    h = t.target
    if h.parent is not None and isinstance(h.parent, FuncInfo) and h.parent is not caller:
        return None  # a closure of some other function
    if caller.module is not h.module and h.cls is None and h.parent is None:
        _fn_names_portable(model, h, caller, dry=False)
    tnames = ()
    if isinstance(target, str):
        tnames = (target,)
    elif isinstance(target, (ast.Tuple, ast.List)):
        tnames = tuple(y.id for e in target.elts for y in ast.walk(e) if isinstance(y, ast.Name))
    b = _bind(model, caller, call, h, tnames)
    if b is None:
        return None
    subst, prologue, renames = b
    body = _body_of(h, subst, renames)
    if mode == "tail":
        if _can_fall_off(body):
            body.append(ast.copy_location(ast.Return(value=ast.Constant(value=None)), st))
        return prologue + body
    rets = _returns(ast.Module(body=body, type_ignores=[]))
    single_tail = len(rets) == 1 and body and body[-1] is rets[0]
    if not rets or single_tail:
        out = prologue + (body[:-1] if single_tail else body)
        if target is not None:
            v = rets[0].value if (single_tail and rets[0].value is not None) else ast.Constant(value=None)
            out.extend(_assign(target, v, st))
        elif single_tail and rets[0].value is not None and not isinstance(rets[0].value, (ast.Constant, ast.Name)):
            out.append(ast.copy_location(ast.Expr(value=rets[0].value), st))
        return out or [ast.copy_location(ast.Pass(), st)]
    if _return_in_loop(ast.Module(body=body, type_ignores=[])):
        # a search helper: `<prefix without returns>; for ..: .. if c: return X ..; return Y` -> the loop with `target = X; break` and the
        # fall-through in the loop's `else:` (exactly Python's for/else: the else runs when the loop was not left by break)
        loops = [i for i, b_ in enumerate(body) if isinstance(b_, (ast.For, ast.While))]
        if len(loops) == 1 and not body[loops[0]].orelse and not _returns(ast.Module(body=body[:loops[0]], type_ignores=[])):
            lp = body[loops[0]]
            tail = body[loops[0] + 1:]
            nested = any(isinstance(x, (ast.For, ast.While, ast.AsyncFor, ast.Try, ast.With)) for b_ in lp.body for x in ast.walk(b_))
            tail_ok = (not tail) or (len(tail) == 1 and isinstance(tail[0], ast.Return))
            if not nested and tail_ok and not _has_loop_exit(lp.body) and not (isinstance(lp, ast.While) and isinstance(lp.test, ast.Constant)):
                lp.body = _replace_returns(lp.body, target, st)
                tv = tail[0].value if tail and tail[0].value is not None else ast.Constant(value=None)
                if target is not None:
                    lp.orelse = _assign(target, tv, st)
                elif tail and tail[0].value is not None and not isinstance(tail[0].value, (ast.Constant, ast.Name)):
                    lp.orelse = [ast.copy_location(ast.Expr(value=tail[0].value), st)]
                ast.fix_missing_locations(lp)
                return prologue + body[:loops[0]] + [lp]
        return None
    falls = _can_fall_off(body)
    inner = _replace_returns(body, target, st)
    if falls:
        if target is not None:
            inner.append(ast.copy_location(ast.Assign(targets=[_tgt(target)], value=ast.Constant(value=None), lineno=st.lineno), st))
        inner.append(ast.copy_location(ast.Break(), st))
    flat = _strip_tail_breaks(inner)
    if flat is not None:
        return prologue + (flat or [ast.copy_location(ast.Pass(), st)])  # every path left the helper at a tail position: no loop needed
    loop = ast.copy_location(ast.While(test=ast.Constant(value=True), body=inner, orelse=[]), st)
    return prologue + [loop]


def _has_loop_exit(stmts) -> bool:
    """a break / continue that belongs to the enclosing loop (not to a loop nested in stmts)"""
    for st in stmts:
        if isinstance(st, (ast.Break, ast.Continue)):
            return True
        if isinstance(st, (ast.For, ast.While, ast.AsyncFor)):
            if _has_loop_exit(st.orelse):
                return True
            continue
        if isinstance(st, (ast.FunctionDef, ast.AsyncFunctionDef, ast.ClassDef)):
            continue
        for fld in ("body", "orelse", "finalbody"):
            sub = getattr(st, fld, None)
            if isinstance(sub, list) and sub and isinstance(sub[0], ast.stmt) and _has_loop_exit(sub):
                return True
        for hd in getattr(st, "handlers", []) or []:
            if _has_loop_exit(hd.body):
                return True
        for cs in getattr(st, "cases", []) or []:
            if _has_loop_exit(cs.body):
                return True
    return False


def _strip_tail_breaks(stmts):
    """The body of a `while True:` that every path leaves by a `break` in tail position (the last statement, or the last
    statement of both sides of a trailing if/else), without those breaks; None if the loop is left in any other way."""
    if not stmts:
        return None
    last = stmts[-1]
    for i, st in enumerate(stmts[:-1]):
        if _has_loop_exit([st]):
            # an early exit `if t: ..; break` followed by the rest: the rest runs exactly when t is false -> if/else
            if isinstance(st, ast.If) and not st.orelse:
                a, b = _strip_tail_breaks(st.body), _strip_tail_breaks(stmts[i + 1:])
                if a is not None and b is not None:
                    new = ast.copy_location(ast.If(test=st.test, body=a or [ast.copy_location(ast.Pass(), st)], orelse=b), st)
                    return list(stmts[:i]) + [new]
            return None
    if isinstance(last, ast.Break):
        return list(stmts[:-1])
    if isinstance(last, ast.If) and last.orelse:
        a, b = _strip_tail_breaks(last.body), _strip_tail_breaks(last.orelse)
        if a is None or b is None:
            return None
        new = ast.copy_location(ast.If(test=last.test, body=a or [ast.copy_location(ast.Pass(), last)], orelse=b), last)
        return list(stmts[:-1]) + [new]
    return None


def _eval_order_simple(e):
    """sub-expressions of an expression in evaluation order (operands before the operation is irrelevant here: parents are yielded first,
    callers only ask what is met *before* a given leaf)"""
    yield e
    for c in ast.iter_child_nodes(e):
        yield from _eval_order_simple(c)


def _as_expression(body: list):
    """A body made only of `return e` and `if t: <such a body> [else: <such a body>]` statements, as
    one expression (`e1 if t else e2`); None if it has any other statement or can fall off its end."""
    if not body:
        return None
    st = body[0]
    if isinstance(st, ast.Return):
        return st.value if st.value is not None else ast.Constant(value=None)
    if isinstance(st, ast.Assign) and len(st.targets) == 1 and isinstance(st.targets[0], ast.Name) and len(body) >= 2 and isinstance(body[1], ast.Return) and body[1].value is not None:
        # `x = E; return f(x)` with x read once and nothing that can run code evaluated before that read: `return f(E)`
        nm = st.targets[0].id
        uses = [n for n in ast.walk(body[1].value) if isinstance(n, ast.Name) and n.id == nm]
        later = [n for b_ in body[2:] for n in ast.walk(b_) if isinstance(n, ast.Name) and n.id == nm]
        if len(uses) == 1 and not later and not any(isinstance(n, (ast.Lambda, ast.GeneratorExp, ast.ListComp, ast.SetComp, ast.DictComp)) for n in ast.walk(body[1].value)):
            before_ok = True
            for n in _eval_order_simple(body[1].value):
                if n is uses[0]:
                    break
                if isinstance(n, (ast.Call, ast.Subscript, ast.Attribute, ast.BinOp, ast.Compare, ast.Await, ast.Yield, ast.YieldFrom)) and not any(u is uses[0] for u in ast.walk(n)):
                    before_ok = False
                    break
            if before_ok:
                idx = next(i for i, n in enumerate(ast.walk(body[1].value)) if n is uses[0])
                val = copy.deepcopy(body[1].value)  # never rewrite the helper itself
                target = list(ast.walk(val))[idx]

                class _S(ast.NodeTransformer):
                    def visit_Name(self, n):
                        return copy.deepcopy(st.value) if n is target else n
                new_ret = ast.copy_location(ast.Return(value=_S().visit(val)), body[1])
                return _as_expression([new_ret] + list(body[2:]))
        return None
    if isinstance(st, ast.If):
        a = _as_expression(st.body)
        b = _as_expression(list(st.orelse) + list(body[1:]))
        if a is None or b is None:
            return None
        return ast.copy_location(ast.IfExp(test=st.test, body=a, orelse=b), st)
    return None


class _ExprInliner(ast.NodeTransformer):
    """Calls of expression-only helpers inside larger expressions."""

    def __init__(self, model, caller, inventory):
        self.model, self.caller, self.inventory = model, caller, inventory
        self.changed = False

    def visit_FunctionDef(self, n):
        return n

    visit_AsyncFunctionDef = visit_FunctionDef
    visit_ClassDef = visit_FunctionDef

    def visit_Call(self, n):
        self.generic_visit(n)
        t = _resolve_for_inline(self.model, self.caller, n)
        if t.kind != "func" or not _is_new(t.target, self.inventory) or t.target is self.caller or not _inlinable(self.model, t.target, self.caller):
            return n
        h = t.target
        if h.parent is not None and isinstance(h.parent, FuncInfo) and h.parent is not self.caller:
            return n
        body = _strip_doc(list(h.node.body))
        expr = _as_expression(body)
        if expr is None:
            return n
        b = _bind(self.model, self.caller, n, h)
        if b is None:
            return n
        subst, prologue, renames = b
        if renames and not ({x.id for x in ast.walk(expr) if isinstance(x, ast.Name)} & set(renames)):
            renames = {}  # the helper's locals were folded away when its body was read as one expression
        if prologue or renames:
            return n  # needs statements: not possible inside an expression
        e = _Subst(subst, {}).visit(copy.deepcopy(expr))
        self.changed = True
        return ast.copy_location(e, n)


_hoist_counter = [0]


def _bool_chain(e) -> bool:
    """An `a if t else b` chain in which every level has a True/False constant arm (a predicate written as
    guard clauses)."""
    if not isinstance(e, ast.IfExp):
        return True
    for arm, other in ((e.body, e.orelse), (e.orelse, e.body)):
        if isinstance(arm, ast.Constant) and isinstance(arm.value, bool):
            return _bool_chain(other)
    return False


class _BoolIfExp(ast.NodeTransformer):
    """In a truth-value context: `True if a else b` -> `a or b`, `False if a else b` -> `not a and b`,
    `b if a else False` -> `a and b`, `b if a else True` -> `not a or b`."""

    def fold(self, e):
        if isinstance(e, ast.UnaryOp) and isinstance(e.op, ast.Not):
            e.operand = self.fold(e.operand)
            return e
        if isinstance(e, ast.BoolOp):
            e.values = [self.fold(v) for v in e.values]
            return e
        if not isinstance(e, ast.IfExp) or not _bool_chain(e):
            return e
        t, a, b = e.test, e.body, e.orelse
        neg = lambda x: ast.copy_location(ast.UnaryOp(op=ast.Not(), operand=x), x)  # noqa: E731
        if isinstance(a, ast.Constant) and isinstance(a.value, bool):
            rest = self.fold(b)
            new = ast.BoolOp(op=ast.Or(), values=[t, rest]) if a.value else ast.BoolOp(op=ast.And(), values=[neg(t), rest])
        else:
            rest = self.fold(a)
            new = ast.BoolOp(op=ast.Or(), values=[neg(t), rest]) if b.value else ast.BoolOp(op=ast.And(), values=[t, rest])
        # `x or False` / `x and True`
        vals = [v for v in new.values if not (isinstance(v, ast.Constant) and isinstance(v.value, bool) and v.value == isinstance(new.op, ast.And))]
        if len(vals) == 1:
            return ast.copy_location(vals[0], e)
        if len(vals) == 2:
            new.values = vals
        return ast.copy_location(new, e)


def _leftmost_call_slot(e):
    """(parent, field, index) of the call that a (test / value) expression evaluates first and
    unconditionally, looking through `not`, the first operand of and/or, and the left side of a comparison."""
    parent, fld, idx = None, None, None
    cur = e
    while True:
        if isinstance(cur, ast.Call):
            return parent, fld, idx, cur
        if isinstance(cur, ast.UnaryOp) and isinstance(cur.op, ast.Not):
            parent, fld, idx, cur = cur, "operand", None, cur.operand
        elif isinstance(cur, ast.BoolOp):
            parent, fld, idx, cur = cur, "values", 0, cur.values[0]
        elif isinstance(cur, ast.Compare):
            parent, fld, idx, cur = cur, "left", None, cur.left
        else:
            return None


def _hoist_statement_helper(model, caller, st, inventory):
    """`if not H(..): ...` / `return not H(..)` / `x = H(..) == y` where H is a new helper whose body
    needs statements (or several returns): `tmp = H(..)` + the statement reading tmp, so that the
    statement-level inliner can take it.  None if nothing to hoist."""
    if isinstance(st, ast.If):
        holder, attr = st, "test"
    elif isinstance(st, (ast.Return, ast.Assign, ast.Expr)) and st.value is not None:
        holder, attr = st, "value"
    else:
        return None
    e = getattr(holder, attr)
    if isinstance(e, ast.Call) and not isinstance(st, ast.If):
        return None  # already a statement-level call
    slot = _leftmost_call_slot(e)
    if slot is None:
        return None
    parent, fld, idx, call = slot
    t = _resolve_for_inline(model, caller, call)
    if t.kind != "func" or not _is_new(t.target, inventory) or t.target is caller or not _inlinable(model, t.target, caller):
        return None
    h = t.target
    if h.parent is not None and isinstance(h.parent, FuncInfo) and h.parent is not caller:
        return None
    expr = _as_expression(_strip_doc(list(h.node.body)))
    if expr is not None and not isinstance(expr, ast.IfExp):
        return None  # a one-expression helper: the expression inliner handles it in place
    if expr is not None and isinstance(st, ast.If) and _bool_chain(expr):
        return None  # a predicate made of `return True/False` guards: becomes an and/or expression in the test
    _hoist_counter[0] += 1
    tmp = f"__inl{_hoist_counter[0]}"
    asg = ast.copy_location(ast.Assign(targets=[ast.Name(id=tmp, ctx=ast.Store())], value=call, lineno=st.lineno), st)
    ref = ast.copy_location(ast.Name(id=tmp, ctx=ast.Load()), call)
    if parent is None:
        setattr(holder, attr, ref)
    elif idx is None:
        setattr(parent, fld, ref)
    else:
        getattr(parent, fld)[idx] = ref
    ast.fix_missing_locations(asg)
    return [asg, st]


def _split_and_test(model, caller, st, inventory) -> bool:
    """`if A and [not] H(..): body` (no else) with H a new helper that needs statements -> `if A: if [not] H(..): body`, in place: the same
    evaluation (H runs only when A holds), and the inner test has the call in the slot the statement-level inliner can take."""
    if not isinstance(st, ast.If) or st.orelse or not isinstance(st.test, ast.BoolOp) or not isinstance(st.test.op, ast.And) or len(st.test.values) < 2:
        return False
    last = st.test.values[-1]
    core = last.operand if isinstance(last, ast.UnaryOp) and isinstance(last.op, ast.Not) else last
    if not isinstance(core, ast.Call):
        return False
    t = _resolve_for_inline(model, caller, core)
    if t.kind != "func" or not _is_new(t.target, inventory) or t.target is caller or not _inlinable(model, t.target, caller):
        return False
    expr = _as_expression(_strip_doc(list(t.target.node.body)))
    if expr is not None and (not isinstance(expr, ast.IfExp) or _bool_chain(expr)):
        return False  # the expression inliner handles it in place
    rest = st.test.values[:-1]
    inner = ast.copy_location(ast.If(test=last, body=st.body, orelse=[]), st)
    st.test = rest[0] if len(rest) == 1 else ast.copy_location(ast.BoolOp(op=ast.And(), values=rest), st.test)
    st.body = [inner]
    ast.fix_missing_locations(st)
    return True


def _process_block(model, caller, stmts: list, inventory) -> tuple:
    out, changed = [], False
    work = list(stmts)
    while work:
        st = work.pop(0)
        if _split_and_test(model, caller, st, inventory):
            changed = True
        hoisted = _hoist_statement_helper(model, caller, st, inventory)
        if hoisted is not None:
            work[0:0] = hoisted
            changed = True
            continue
        rep = _expand_stmt(model, caller, st, inventory)
        if rep is not None:
            out.extend(rep)
            changed = True
            continue
        if isinstance(st, (ast.FunctionDef, ast.AsyncFunctionDef, ast.ClassDef)):
            out.append(st)
            continue
        for fld in ("body", "orelse", "finalbody"):
            sub = getattr(st, fld, None)
            if isinstance(sub, list) and sub and isinstance(sub[0], ast.stmt):
                new, ch = _process_block(model, caller, sub, inventory)
                setattr(st, fld, new)
                changed = changed or ch
        for hd in getattr(st, "handlers", []) or []:
            new, ch = _process_block(model, caller, hd.body, inventory)
            hd.body = new
            changed = changed or ch
        for cs in getattr(st, "cases", []) or []:
            new, ch = _process_block(model, caller, cs.body, inventory)
            cs.body = new
            changed = changed or ch
        # expression-level calls in the statement's own expressions
        ei = _ExprInliner(model, caller, inventory)
        for fld, val in list(ast.iter_fields(st)):
            if isinstance(val, ast.expr):
                setattr(st, fld, ei.visit(val))
            elif isinstance(val, list) and val and all(isinstance(x, ast.expr) for x in val):
                setattr(st, fld, [ei.visit(x) for x in val])
            elif isinstance(val, list) and val and all(isinstance(x, ast.withitem) for x in val):
                for wi in val:
                    wi.context_expr = ei.visit(wi.context_expr)
        changed = changed or ei.changed
        if ei.changed and isinstance(st, (ast.If, ast.While)):
            st.test = _BoolIfExp().fold(st.test)
            ast.fix_missing_locations(st)
        out.append(st)
    return out, changed


def inline_new_helpers(model, inventory: set) -> list:
    """One round: inlines calls of new helpers in every function of the model (in place, on the
    module trees).  Returns the qualified names of the callers that changed."""
    changed = []
    set_current_functions(model.functions)
    new_helpers = [f for f in model.functions.values() if _is_new(f, inventory)]
    if not new_helpers:
        return changed
    for f in list(model.functions.values()):
        if f.module.short.startswith("_typeguard") or not isinstance(f.node, (ast.FunctionDef, ast.AsyncFunctionDef)):
            continue
        body, ch = _process_block(model, f, f.node.body, inventory)
        if ch:
            f.node.body = body
            ast.fix_missing_locations(f.node)
            changed.append(f.qualname)
    return changed


def drop_absorbed_helpers(model, inventory: set) -> list:
    """After inlining: a new helper that is no longer called or mentioned anywhere has been absorbed
    by its callers; its definition is removed so that censuses do not count its statements twice.
    (The model must have been re-indexed after the last inlining round.)"""
    new_helpers = [f for f in model.functions.values() if _is_new(f, inventory) and isinstance(f.node, ast.FunctionDef)]
    if not new_helpers:
        return []
    used = set()
    for mod in model.modules.values():
        for n in ast.walk(mod.tree):
            if isinstance(n, ast.Name) and isinstance(n.ctx, ast.Load):
                used.add(n.id)
            elif isinstance(n, ast.Attribute) and isinstance(n.ctx, ast.Load):
                used.add(n.attr)
            elif isinstance(n, ast.Constant) and isinstance(n.value, str) and n.value.isidentifier():
                used.add(n.value)  # getattr(x, "name") / __all__
            elif isinstance(n, ast.alias):
                used.add(n.name.split(".")[-1])
    dropped = []
    # a new private class nobody mentions any more (its instances were dissolved into locals, its methods inlined) goes whole
    try:
        from .inventory import MODULE_NAMES as _MN
    except ImportError:
        _MN = {}
    for mod in model.modules.values():
        if mod.short.startswith("_typeguard"):
            continue
        for st in list(mod.tree.body):
            if isinstance(st, ast.ClassDef) and st.name.startswith("_") and not st.name.startswith("__") and st.name not in _MN.get(mod.short, set()) \
                    and not st.decorator_list and len(mod.tree.body) > 1:
                inside = {id(x) for x in ast.walk(st)}
                mentioned = False
                for mod2 in model.modules.values():
                    for n in ast.walk(mod2.tree):
                        if id(n) in inside:
                            continue
                        if (isinstance(n, ast.Name) and n.id == st.name) or (isinstance(n, ast.Attribute) and n.attr == st.name) \
                                or (isinstance(n, ast.Constant) and n.value == st.name) or (isinstance(n, ast.alias) and n.name.split(".")[-1] == st.name):
                            mentioned = True
                            break
                    if mentioned:
                        break
                if not mentioned:
                    mod.tree.body.remove(st)
                    dropped.append(f"{mod.short}.{st.name}")
    gone = tuple(d + "." for d in dropped)
    for h in new_helpers:
        if gone and h.qualname.startswith(gone):
            continue
        if h.name in used or h.name.startswith("__") or not h.name.startswith("_"):
            continue
        owner_body = None
        if isinstance(h.parent, FuncInfo):
            continue  # local defs stay (cheap, and their enclosing function may refer to them in ways we miss)
        if h.cls is not None:
            owner_body = h.cls.node.body
        else:
            owner_body = h.module.tree.body
        if h.node in owner_body and len(owner_body) > 1:
            owner_body.remove(h.node)
            dropped.append(h.qualname)
    return dropped


# --------------------------------------------------------------------------- new named constants
def _const_node(v):
    """The constant a module-level binding stands for, or None: str / number / bool / None
    literals and tuples of them (an f-string without holes and implicit concatenation already are
    a single Constant in the AST)."""
    if isinstance(v, ast.Constant) and not isinstance(v.value, (bytes, type(Ellipsis))):
        return v
    if isinstance(v, ast.Tuple) and v.elts and all(isinstance(e, ast.Constant) for e in v.elts):
        return v
    if isinstance(v, ast.JoinedStr) and all(isinstance(x, ast.Constant) for x in v.values):
        return ast.Constant(value="".join(x.value for x in v.values))
    return None


class _FoldFStrings(ast.NodeTransformer):
    def visit_JoinedStr(self, n):
        self.generic_visit(n)
        out = []
        for v in n.values:
            if isinstance(v, ast.FormattedValue) and isinstance(v.value, ast.Constant) and isinstance(v.value.value, str) \
                    and v.conversion == -1 and v.format_spec is None:
                v = ast.copy_location(ast.Constant(value=v.value.value), v)
            if isinstance(v, ast.Constant) and out and isinstance(out[-1], ast.Constant):
                out[-1] = ast.copy_location(ast.Constant(value=out[-1].value + v.value), out[-1])
            else:
                out.append(v)
        if len(out) == 1 and isinstance(out[0], ast.Constant):
            return ast.copy_location(ast.Constant(value=out[0].value), n)
        n.values = out
        return n


def propagate_new_constants(model, module_names: dict) -> list:
    """Named constants that do not exist in the pinned tree (`_PREFIX = "jaxtyping9"`, an error text,
    an environment-variable name) are substituted back where they are read, in function bodies and
    class bodies; f-strings whose holes became literals are folded.  `module_names`: module -> names
    bound at module level in the pinned tree.  Returns the names substituted."""
    consts = {}
    for mod in model.modules.values():
        if mod.short.startswith("_typeguard"):
            continue
        known = module_names.get(mod.short, set())
        for name, vals in mod.assigns.items():
            if name in known or len(vals) != 1 or vals[0] is None:
                continue
            if name in mod.functions or name in mod.classes:
                continue
            c = _const_node(vals[0])
            if c is not None:
                consts[(mod.short, name)] = c
    # a module-level name that some function re-binds (`global _hook; _hook = ..`) or that is stored to from another module
    # (`mod._hook = ..`) is a variable, not a named constant
    for mod in model.modules.values():
        if mod.short.startswith("_typeguard"):
            continue
        for x in ast.walk(mod.tree):
            if isinstance(x, ast.Global):
                for nm in x.names:
                    consts.pop((mod.short, nm), None)
            elif isinstance(x, ast.Attribute) and isinstance(x.ctx, (ast.Store, ast.Del)):
                for key in [k for k in consts if k[1] == x.attr]:
                    consts.pop(key, None)
    if not consts:
        return []
    used = set()

    def rewrite(scope, node):
        class Tr(ast.NodeTransformer):
            def visit_Name(self, n):
                if isinstance(n.ctx, ast.Load):
                    b = model.resolve_name(scope, n.id)
                    if b.kind == "modvar":
                        key = (b.target[0].short, b.target[1])
                        if key in consts:
                            used.add(key)
                            return ast.copy_location(copy.deepcopy(consts[key]), n)
                return n

            def visit_FunctionDef(self, n):
                return n if n is not node else self.generic_visit(n)

            visit_AsyncFunctionDef = visit_FunctionDef

            def visit_ClassDef(self, n):
                return n if n is not node else self.generic_visit(n)

        Tr().visit(node)
        _FoldFStrings().visit(node)

    for f in list(model.functions.values()):
        if f.module.short.startswith("_typeguard"):
            continue
        rewrite(f, f.node)
    for mod in model.modules.values():
        if mod.short.startswith("_typeguard"):
            continue
        for st in mod.tree.body:
            if isinstance(st, (ast.FunctionDef, ast.AsyncFunctionDef, ast.ClassDef)):
                continue
            if isinstance(st, ast.Assign) and len(st.targets) == 1 and isinstance(st.targets[0], ast.Name) and (mod.short, st.targets[0].id) in consts:
                continue
            rewrite(mod, st)
    return sorted(f"{m}.{n}" for m, n in used)


# --------------------------------------------------------------------------- match statements
class _DesugarMatch(ast.NodeTransformer):
    """`match` -> if / elif chain (the pinned tree has no `match`; the rules and the CFG builder speak
    if/elif).  Value, singleton, class-without-arguments, or-patterns, the wildcard and simple captures are
    translated exactly; any other pattern becomes an opaque test `__match__("<pattern>", subject)` that
    every oracle treats as unknown."""

    def __init__(self):
        self.n = 0
        self.changed = False

    def _cond(self, pat, subj, binds):
        if isinstance(pat, ast.MatchValue):
            return ast.Compare(left=copy.deepcopy(subj), ops=[ast.Eq()], comparators=[pat.value])
        if isinstance(pat, ast.MatchSingleton):
            return ast.Compare(left=copy.deepcopy(subj), ops=[ast.Is()], comparators=[ast.Constant(value=pat.value)])
        if isinstance(pat, ast.MatchClass) and not pat.patterns and not pat.kwd_patterns:
            return ast.Call(func=ast.Name(id="isinstance", ctx=ast.Load()), args=[copy.deepcopy(subj), pat.cls], keywords=[])
        if isinstance(pat, ast.MatchOr):
            parts = [self._cond(p_, subj, binds) for p_ in pat.patterns]
            return ast.BoolOp(op=ast.Or(), values=parts)
        if isinstance(pat, ast.MatchAs):
            if pat.pattern is None:
                if pat.name is not None:
                    binds.append(pat.name)
                return ast.Constant(value=True)
            c = self._cond(pat.pattern, subj, binds)
            if pat.name is not None:
                binds.append(pat.name)
            return c
        return ast.Call(func=ast.Name(id="__match__", ctx=ast.Load()), args=[ast.Constant(value=ast.unparse(pat)), copy.deepcopy(subj)], keywords=[])

    def visit_Match(self, node):
        self.generic_visit(node)
        self.changed = True
        pre = []
        subj = node.subject
        if not _simple(subj):
            self.n += 1
            tmp = f"__match_subject{self.n}"
            pre.append(ast.copy_location(ast.Assign(targets=[ast.Name(id=tmp, ctx=ast.Store())], value=subj, lineno=node.lineno), node))
            subj = ast.Name(id=tmp, ctx=ast.Load())
        chain = None
        last = None
        for case in node.cases:
            binds = []
            cond = self._cond(case.pattern, subj, binds)
            if case.guard is not None:
                cond = ast.BoolOp(op=ast.And(), values=[cond, case.guard])
            body = [ast.copy_location(ast.Assign(targets=[ast.Name(id=b, ctx=ast.Store())], value=copy.deepcopy(subj), lineno=case.body[0].lineno), case.body[0]) for b in binds] + list(case.body)
            always = isinstance(cond, ast.Constant) and cond.value is True
            if always and last is not None:
                last.orelse = body
                break
            if always:
                chain = body  # a lone wildcard
                last = None
                break
            new_if = ast.copy_location(ast.If(test=ast.copy_location(cond, case.pattern), body=body, orelse=[]), case.pattern)
            if last is None:
                chain = [new_if]
            else:
                last.orelse = [new_if]
            last = new_if
        out = pre + (chain or [ast.copy_location(ast.Pass(), node)])
        for st in out:
            ast.fix_missing_locations(st)
        return out


def desugar_match(model) -> bool:
    changed = False
    for mod in model.modules.values():
        if mod.short.startswith("_typeguard"):
            continue
        if not any(isinstance(x, ast.Match) for x in ast.walk(mod.tree)):
            continue
        tr = _DesugarMatch()
        tr.visit(mod.tree)
        ast.fix_missing_locations(mod.tree)
        changed = changed or tr.changed
    return changed


# --------------------------------------------------------------------------- NamedTuple holders
def _new_namedtuples(model, module_names: dict) -> dict:
    """(module short, class name) -> [field names] for NamedTuple classes that do not exist in the pinned
    tree and only declare fields (no defaults, no methods): plain tuples with named access."""
    out = {}
    for mod in model.modules.values():
        if mod.short.startswith("_typeguard"):
            continue
        known = module_names.get(mod.short, set())
        for st in mod.tree.body:
            if not isinstance(st, ast.ClassDef) or st.name in known or st.decorator_list or st.keywords:
                continue
            if len(st.bases) != 1 or norm_base(st.bases[0]) != "NamedTuple":
                continue
            fields, ok = [], True
            for b in _strip_doc(list(st.body)):
                if isinstance(b, ast.AnnAssign) and isinstance(b.target, ast.Name) and b.value is None:
                    fields.append(b.target.id)
                elif isinstance(b, ast.Pass):
                    continue
                else:
                    ok = False
            if ok and fields:
                out[(mod.short, st.name)] = fields
    return out


def norm_base(b) -> str:
    if isinstance(b, ast.Name):
        return b.id
    if isinstance(b, ast.Attribute):
        return b.attr
    return ""


def erase_new_namedtuples(model, module_names: dict) -> list:
    """`memos = _Memos(*get_shape_memo()); memos.single` -> `memos = get_shape_memo(); memos[0]`.
    A NamedTuple *is* the tuple; the rules speak positions.  Only for classes new w.r.t. the pinned tree,
    and only for names that are bound (in the same function) from a constructor call of that class and from
    nothing else.  `_replace`, `_asdict`, `_fields` keep the object opaque (no rewrite of that name)."""
    nts = _new_namedtuples(model, module_names)
    if not nts:
        return []
    used = set()

    def ctor(scope, call):
        if not isinstance(call, ast.Call):
            return None
        b = None
        if isinstance(call.func, ast.Name):
            b = model.resolve_name(scope, call.func.id)
        if b is None or b.kind not in ("class", "modvar"):
            return None
        try:
            if b.kind == "class":
                key = (b.target.module.short, b.target.name)
            else:
                key = (b.target[0].short, b.target[1])
        except Exception:
            return None
        return key if key in nts else None

    def unwrap(call, fields):
        """The tuple expression a constructor call stands for, or None."""
        if call.keywords and call.args:
            return None
        if call.keywords:
            kw = {k.arg: k.value for k in call.keywords}
            if None in kw or set(kw) != set(fields):
                return None
            return ast.copy_location(ast.Tuple(elts=[kw[f] for f in fields], ctx=ast.Load()), call)
        if len(call.args) == 1 and isinstance(call.args[0], ast.Starred):
            return call.args[0].value
        if len(call.args) == len(fields) and not any(isinstance(a, ast.Starred) for a in call.args):
            return ast.copy_location(ast.Tuple(elts=list(call.args), ctx=ast.Load()), call)
        return None

    for f in list(model.functions.values()):
        if f.module.short.startswith("_typeguard"):
            continue
        # names bound only from constructor calls of one such class
        bound, spoiled, ok_targets = {}, set(), set()
        for n in _walk_own(f.node):
            if isinstance(n, ast.Assign) and len(n.targets) == 1 and isinstance(n.targets[0], ast.Name):
                k = ctor(f, n.value)
                nm = n.targets[0].id
                if k is not None and unwrap(n.value, nts[k]) is not None and bound.get(nm, k) == k:
                    bound[nm] = k
                    ok_targets.add(id(n.targets[0]))
        for n in _walk_own(f.node):
            if isinstance(n, ast.Name) and isinstance(n.ctx, (ast.Store, ast.Del)) and id(n) not in ok_targets:
                spoiled.add(n.id)
        params = {a.arg for a in ast.walk(f.node.args) if isinstance(a, ast.arg)}
        for nm in list(bound):
            if nm in spoiled or nm in params:
                del bound[nm]
        # opaque uses
        for n in _walk_own(f.node):
            if isinstance(n, ast.Attribute) and isinstance(n.value, ast.Name) and n.value.id in bound and n.attr not in nts[bound[n.value.id]]:
                bound.pop(n.value.id, None)
        if not bound:
            continue

        n_assign = {}
        for n in _walk_own(f.node):
            if isinstance(n, ast.Assign) and id(n.targets[0]) in ok_targets:
                n_assign[n.targets[0].id] = n_assign.get(n.targets[0].id, 0) + 1
        # a name bound once gets one local per field read (`memos__single = memos[0]` right after the
        # binding; tuples are immutable and the name is never re-bound, so this is the same value)
        spread = {nm for nm in bound if n_assign.get(nm) == 1}
        fields_read = {}

        class Tr(ast.NodeTransformer):
            def visit_Attribute(self, n):
                self.generic_visit(n)
                if isinstance(n.value, ast.Name) and n.value.id in bound and n.attr in nts[bound[n.value.id]]:
                    nm = n.value.id
                    used.add(".".join(bound[nm]))
                    if nm in spread and isinstance(n.ctx, ast.Load):
                        fields_read.setdefault(nm, set()).add(n.attr)
                        return ast.copy_location(ast.Name(id=f"{nm}__{n.attr}", ctx=ast.Load()), n)
                    return ast.copy_location(ast.Subscript(value=n.value, slice=ast.Constant(value=nts[bound[nm]].index(n.attr)), ctx=n.ctx), n)
                return n

            def visit_Assign(self, n):
                self.generic_visit(n)
                if len(n.targets) == 1 and isinstance(n.targets[0], ast.Name) and n.targets[0].id in bound:
                    k = ctor(f, n.value)
                    if k is not None:
                        n.value = unwrap(n.value, nts[k])
                        used.add(".".join(k))
                return n

            def visit_FunctionDef(self, n):
                return n if n is not f.node else self.generic_visit(n)

            visit_AsyncFunctionDef = visit_FunctionDef
            visit_Lambda = lambda self, n: n  # noqa: E731

        Tr().visit(f.node)

        def spread_in(stmts):
            i = 0
            while i < len(stmts):
                st = stmts[i]
                if isinstance(st, ast.Assign) and id(st.targets[0]) in ok_targets and st.targets[0].id in fields_read:
                    nm = st.targets[0].id
                    flds = nts[bound[nm]]
                    extra = [
                        ast.copy_location(ast.Assign(targets=[ast.Name(id=f"{nm}__{fl}", ctx=ast.Store())],
                                                     value=ast.Subscript(value=ast.Name(id=nm, ctx=ast.Load()), slice=ast.Constant(value=flds.index(fl)), ctx=ast.Load()),
                                                     lineno=st.lineno), st)
                        for fl in flds if fl in fields_read[nm]
                    ]
                    stmts[i + 1:i + 1] = extra
                    i += len(extra)
                else:
                    for fld in ("body", "orelse", "finalbody"):
                        sub = getattr(st, fld, None)
                        if isinstance(sub, list) and not isinstance(st, (ast.FunctionDef, ast.AsyncFunctionDef, ast.ClassDef)):
                            spread_in(sub)
                    for hd in getattr(st, "handlers", []) or []:
                        spread_in(hd.body)
                i += 1

        if fields_read:
            spread_in(f.node.body)
        Tr().visit(f.node)
        ast.fix_missing_locations(f.node)
    return sorted(used)


def _walk_own(fn_node):
    """Nodes of a function body, not descending into nested function definitions / lambdas / classes."""
    work = list(fn_node.body)
    while work:
        n = work.pop()
        yield n
        for c in ast.iter_child_nodes(n):
            if isinstance(c, (ast.FunctionDef, ast.AsyncFunctionDef, ast.Lambda, ast.ClassDef)):
                continue
            work.append(c)


# --------------------------------------------------------------------------- table-driven code
MAX_TABLE = 16


def _table_elt_ok(e) -> bool:
    if isinstance(e, ast.Constant):
        return not isinstance(e.value, (bytes, type(Ellipsis)))
    if isinstance(e, ast.Name):
        return True  # a function / class / module-level name
    if isinstance(e, ast.Attribute):
        return _table_elt_ok(e.value)
    if isinstance(e, ast.Tuple):
        return all(_table_elt_ok(x) for x in e.elts)
    return False


def _new_tables(model, module_names: dict):
    """Module-level tuples (rows of constants / names) and dicts (constant-or-name keys -> names) that do
    not exist in the pinned tree and are bound exactly once: the data of table-driven rewrites of
    if/elif chains."""
    seqs, dicts = {}, {}
    for mod in model.modules.values():
        if mod.short.startswith("_typeguard"):
            continue
        known = module_names.get(mod.short, set())
        count = {}
        for st in ast.walk(mod.tree):
            if isinstance(st, ast.Name) and isinstance(st.ctx, (ast.Store, ast.Del)):
                count[st.id] = count.get(st.id, 0) + 1
        def module_level(stmts):
            """statements executed at import time: the module body and the blocks of its if / try / with statements"""
            for st_ in stmts:
                yield st_
                if isinstance(st_, (ast.If, ast.Try, ast.With)):
                    for fld in ("body", "orelse", "finalbody"):
                        yield from module_level(getattr(st_, fld, []) or [])
                    for hd in getattr(st_, "handlers", []) or []:
                        yield from module_level(hd.body)

        for st in module_level(mod.tree.body):
            if isinstance(st, ast.Assign) and len(st.targets) == 1 and isinstance(st.targets[0], ast.Name):
                nm, v = st.targets[0].id, st.value
            elif isinstance(st, ast.AnnAssign) and isinstance(st.target, ast.Name) and st.value is not None:
                nm, v = st.target.id, st.value
            else:
                continue
            if nm in known or count.get(nm, 0) != 1:
                continue
            if isinstance(v, (ast.Tuple, ast.List)) and 0 < len(v.elts) <= MAX_TABLE and all(_table_elt_ok(e) for e in v.elts):
                if isinstance(v, ast.List) and _mutated_anywhere(model, mod, nm):
                    continue
                if all(isinstance(e, ast.Constant) for e in v.elts) and isinstance(v, ast.Tuple):
                    pass  # also a plain constant; unrolling loops over it is still right
                seqs[(mod.short, nm)] = v
            elif isinstance(v, ast.Dict) and 0 < len(v.keys) <= MAX_TABLE and all(k is not None and _table_elt_ok(k) for k in v.keys) \
                    and all(_table_elt_ok(x) for x in v.values) and not _mutated_anywhere(model, mod, nm):
                dicts[(mod.short, nm)] = v
    return seqs, dicts


_DICT_MUT = {"update", "pop", "popitem", "clear", "setdefault", "__setitem__", "__delitem__", "append", "extend", "insert", "remove", "sort", "reverse"}


def _mutated_anywhere(model, mod, nm) -> bool:
    """Conservative: any store through the name, any mutator method call, any use other than reading
    (`.get`, subscript load, `in`, iteration) anywhere in the package counts as a possible mutation."""
    for m2 in model.modules.values():
        if m2.short.startswith("_typeguard"):
            continue
        parents = {}
        for p in ast.walk(m2.tree):
            for c in ast.iter_child_nodes(p):
                parents[id(c)] = p
        for n in ast.walk(m2.tree):
            if not (isinstance(n, ast.Name) and n.id == nm and isinstance(n.ctx, ast.Load)):
                continue
            if m2 is not mod and nm not in m2.imports:
                continue
            p = parents.get(id(n))
            if isinstance(p, ast.Attribute) and p.value is n:
                if p.attr in ("get", "items", "keys", "values", "__contains__", "__getitem__", "index", "count"):
                    continue
                return True
            if isinstance(p, ast.Subscript) and p.value is n and isinstance(p.ctx, ast.Load):
                continue
            if isinstance(p, ast.Compare) and n in p.comparators:
                continue
            if isinstance(p, (ast.For, ast.comprehension)) and p.iter is n:
                continue
            if isinstance(p, ast.Call) and isinstance(p.func, ast.Name) and p.func.id in ("len", "tuple", "list", "dict", "iter", "enumerate", "set", "frozenset", "sorted") and n in p.args:
                continue
            return True
    return False


def _row_bindings(target, row):
    """{loop variable: AST of its value} for one table row, or None when the shapes disagree."""
    if isinstance(target, ast.Name):
        return {target.id: row}
    if isinstance(target, (ast.Tuple, ast.List)) and isinstance(row, ast.Tuple) and len(target.elts) == len(row.elts):
        out = {}
        for t, r in zip(target.elts, row.elts):
            sub = _row_bindings(t, r)
            if sub is None:
                return None
            out.update(sub)
        return out
    return None


class _SubstLoads(ast.NodeTransformer):
    def __init__(self, env):
        self.env = env

    def visit_Name(self, n):
        if isinstance(n.ctx, ast.Load) and n.id in self.env:
            return ast.copy_location(copy.deepcopy(self.env[n.id]), n)
        return n


class _FoldConstCalls(ast.NodeTransformer):
    """`"jaxtyping_disable".upper()` -> "JAXTYPING_DISABLE"; `setattr(o, "name", v)` / `getattr(o, "name")`
    with a literal identifier -> attribute syntax (as an expression statement / expression)."""

    _PURE = {"upper", "lower", "strip", "lstrip", "rstrip", "title", "capitalize", "casefold"}

    def visit_Call(self, n):
        self.generic_visit(n)
        f = n.func
        if isinstance(f, ast.Attribute) and isinstance(f.value, ast.Constant) and isinstance(f.value.value, str) and f.attr in self._PURE \
                and not n.args and not n.keywords:
            return ast.copy_location(ast.Constant(value=getattr(f.value.value, f.attr)()), n)
        if isinstance(f, ast.Name) and f.id == "getattr" and len(n.args) == 2 and not n.keywords and isinstance(n.args[1], ast.Constant) \
                and isinstance(n.args[1].value, str) and n.args[1].value.isidentifier():
            return ast.copy_location(ast.Attribute(value=n.args[0], attr=n.args[1].value, ctx=ast.Load()), n)
        return n

    def visit_Expr(self, n):
        self.generic_visit(n)
        c = n.value
        if isinstance(c, ast.Call) and isinstance(c.func, ast.Name) and c.func.id == "setattr" and len(c.args) == 3 and not c.keywords \
                and isinstance(c.args[1], ast.Constant) and isinstance(c.args[1].value, str) and c.args[1].value.isidentifier():
            return ast.copy_location(ast.Assign(targets=[ast.Attribute(value=c.args[0], attr=c.args[1].value, ctx=ast.Store())], value=c.args[2], lineno=n.lineno), n)
        return n


def _loop_level(stmts, kinds):
    """break / continue statements that belong to the loop whose body is `stmts`."""
    out = []
    for st in stmts:
        if isinstance(st, kinds):
            out.append(st)
        if isinstance(st, (ast.For, ast.While, ast.AsyncFor, ast.FunctionDef, ast.AsyncFunctionDef, ast.ClassDef)):
            # inner loops own their break/continue, but their `else:` belongs to us
            if isinstance(st, (ast.For, ast.While, ast.AsyncFor)):
                out += _loop_level(st.orelse, kinds)
            continue
        for fld in ("body", "orelse", "finalbody"):
            sub = getattr(st, fld, None)
            if isinstance(sub, list):
                out += _loop_level(sub, kinds)
        for hd in getattr(st, "handlers", []) or []:
            out += _loop_level(hd.body, kinds)
    return out


def _names_stored(node) -> set:
    return {x.id for x in ast.walk(node) if isinstance(x, ast.Name) and isinstance(x.ctx, (ast.Store, ast.Del))}


def unroll_new_tables(model, module_names: dict) -> list:
    """Table-driven rewrites are turned back into the straight-line / if-elif code they stand for:

      * `for a, b in TABLE: BODY` (no break/continue) -> BODY once per row, loop variables substituted;
      * first-match loops `for a, b in TABLE: if TEST: ...; break|return|raise` [`else: E`] -> an
        if / elif chain over the rows [with E as the final else];
      * `[f(a) for a, _ in TABLE]`, `{a: v for a, _ in TABLE}` -> the literal;
      * `h = TABLE.get(type(x), default)` + one call `h(...)` -> an if / elif chain of direct calls
        (`TABLE[key]`: the chain ends in `raise KeyError(key)`).

    Only for tables that do not exist in the pinned tree, are bound once and are never written; loop
    variables must not be re-bound in the body nor read after the loop.  What does not fit stays as it
    is (the rules then see a loop over an unknown table and give no verdict)."""
    seqs, dicts = _new_tables(model, module_names)
    if not seqs and not dicts:
        return []
    used = set()

    def table_of(scope, e, kind):
        if not isinstance(e, ast.Name):
            return None
        b = model.resolve_name(scope, e.id)
        if b.kind != "modvar":
            return None
        key = (b.target[0].short, b.target[1])
        return key if key in (seqs if kind == "seq" else dicts) else None

    def unroll_for(scope, st, following):
        """Replacement statement list for the For statement `st`, or None."""
        key = table_of(scope, st.iter, "seq")
        if key is None:
            return None
        rows = seqs[key].elts
        envs = [_row_bindings(st.target, r) for r in rows]
        if any(e is None for e in envs):
            return None
        tnames = {x.id for x in ast.walk(st.target) if isinstance(x, ast.Name)}
        if tnames & (_names_stored(ast.Module(body=st.body, type_ignores=[])) | _names_stored(ast.Module(body=st.orelse, type_ignores=[]))):
            return None
        # loop variables read after the loop (or in its else) keep a value the unrolled code never binds
        for later in list(st.orelse) + list(following):
            if any(isinstance(x, ast.Name) and x.id in tnames - {"_"} and isinstance(x.ctx, ast.Load) for x in ast.walk(later)):
                return None
        brk = _loop_level(st.body, (ast.Break,))
        cont = _loop_level(st.body, (ast.Continue,))

        def body_for(env, stmts):
            out = [_SubstLoads(env).visit(copy.deepcopy(s)) for s in stmts]
            out = [_FoldConstCalls().visit(s) for s in out]
            for s in out:
                _FoldFStrings().visit(s)
            return out

        if not brk and not cont:
            # every row runs (an early return/raise inside simply ends the function, as in the loop)
            out = []
            for env in envs:
                out += body_for(env, st.body)
            out += list(st.orelse)
            used.add(".".join(key))
            return out
        # first-match: the body is one `if` without else whose block ends the loop
        if cont or len(st.body) != 1 or not isinstance(st.body[0], ast.If) or st.body[0].orelse:
            return None
        inner = st.body[0]
        last = inner.body[-1]
        if len(brk) != 1 or brk[0] is not last:
            return None
        chain, tail = None, None
        for env in envs:
            test = body_for(env, [ast.Expr(value=inner.test)])[0].value
            blk = body_for(env, inner.body[:-1]) or [ast.copy_location(ast.Pass(), inner)]
            new_if = ast.copy_location(ast.If(test=test, body=blk, orelse=[]), inner)
            if chain is None:
                chain = new_if
            else:
                tail.orelse = [new_if]
            tail = new_if
        tail.orelse = list(st.orelse)
        used.add(".".join(key))
        return [chain]

    def process(scope, stmts):
        changed = False
        i = 0
        while i < len(stmts):
            st = stmts[i]
            if isinstance(st, (ast.FunctionDef, ast.AsyncFunctionDef, ast.ClassDef)):
                i += 1
                continue
            for fld in ("body", "orelse", "finalbody"):
                sub = getattr(st, fld, None)
                if isinstance(sub, list) and sub and isinstance(sub[0], ast.stmt):
                    changed |= process(scope, sub)
            for hd in getattr(st, "handlers", []) or []:
                changed |= process(scope, hd.body)
            if isinstance(st, ast.For):
                new = unroll_for(scope, st, stmts[i + 1:])
                if new is not None:
                    for s in new:
                        ast.fix_missing_locations(s)
                    stmts[i:i + 1] = new
                    changed = True
                    i += len(new)
                    continue
            i += 1
        return changed

    class _Comps(ast.NodeTransformer):
        """comprehensions over a table -> the literal"""

        def __init__(self, scope):
            self.scope = scope
            self.changed = False

        def _rows(self, n):
            if len(n.generators) != 1:
                return None
            g = n.generators[0]
            if g.ifs or g.is_async:
                return None
            key = table_of(self.scope, g.iter, "seq")
            if key is None:
                return None
            envs = [_row_bindings(g.target, r) for r in seqs[key].elts]
            if any(e is None for e in envs):
                return None
            used.add(".".join(key))
            return envs

        def _inst(self, e, env):
            x = _SubstLoads(env).visit(copy.deepcopy(e))
            x = _FoldConstCalls().visit(x)
            return x

        def visit_ListComp(self, n):
            self.generic_visit(n)
            envs = self._rows(n)
            if envs is None:
                return n
            self.changed = True
            return ast.copy_location(ast.List(elts=[self._inst(n.elt, e) for e in envs], ctx=ast.Load()), n)

        def visit_DictComp(self, n):
            self.generic_visit(n)
            envs = self._rows(n)
            if envs is None:
                return n
            self.changed = True
            return ast.copy_location(ast.Dict(keys=[self._inst(n.key, e) for e in envs], values=[self._inst(n.value, e) for e in envs]), n)

        def visit_FunctionDef(self, n):
            return n

        visit_AsyncFunctionDef = visit_FunctionDef
        visit_ClassDef = visit_FunctionDef

    def dispatch(scope, stmts):
        """`h = D.get(K, default)` ... `h(args)` (one use) -> if/elif chain of direct calls."""
        changed = False
        i = 0
        while i < len(stmts):
            st = stmts[i]
            if isinstance(st, (ast.FunctionDef, ast.AsyncFunctionDef, ast.ClassDef)):
                i += 1
                continue
            for fld in ("body", "orelse", "finalbody"):
                sub = getattr(st, fld, None)
                if isinstance(sub, list) and sub and isinstance(sub[0], ast.stmt):
                    changed |= dispatch(scope, sub)
            for hd in getattr(st, "handlers", []) or []:
                changed |= dispatch(scope, hd.body)
            sel = _selector(scope, st)
            if sel is not None and i + 1 < len(stmts):
                var, key, keyexpr, default = sel
                nxt = stmts[i + 1]
                uses = [x for x in ast.walk(nxt) if isinstance(x, ast.Name) and x.id == var and isinstance(x.ctx, ast.Load)]
                later_uses = [x for s in stmts[i + 2:] for x in ast.walk(s) if isinstance(x, ast.Name) and x.id == var and isinstance(x.ctx, ast.Load)]
                calls = [c for c in ast.walk(nxt) if isinstance(c, ast.Call) and isinstance(c.func, ast.Name) and c.func.id == var]
                if len(uses) == 1 and len(calls) == 1 and not later_uses and isinstance(nxt, (ast.Assign, ast.Expr, ast.Return, ast.AnnAssign)):
                    d = dicts[key]
                    chain, tail = None, None
                    for k, v in zip(d.keys, d.values):
                        if isinstance(keyexpr, ast.Call) and isinstance(keyexpr.func, ast.Name) and keyexpr.func.id == "type" and isinstance(k, (ast.Name, ast.Attribute)):
                            test = ast.Compare(left=copy.deepcopy(keyexpr), ops=[ast.Is()], comparators=[copy.deepcopy(k)])
                        else:
                            test = ast.Compare(left=copy.deepcopy(keyexpr), ops=[ast.Eq()], comparators=[copy.deepcopy(k)])
                        blk = _SubstLoads({var: v}).visit(copy.deepcopy(nxt))
                        new_if = ast.copy_location(ast.If(test=test, body=[blk], orelse=[]), st)
                        if chain is None:
                            chain = new_if
                        else:
                            tail.orelse = [new_if]
                        tail = new_if
                    if default is not None:
                        tail.orelse = [_SubstLoads({var: default}).visit(copy.deepcopy(nxt))]
                    else:
                        tail.orelse = [ast.copy_location(ast.Raise(exc=ast.Call(func=ast.Name(id="KeyError", ctx=ast.Load()), args=[copy.deepcopy(keyexpr)], keywords=[]), cause=None), st)]
                    ast.fix_missing_locations(chain)
                    stmts[i:i + 2] = [chain]
                    used.add(".".join(key))
                    changed = True
            i += 1
        return changed

    def _selector(scope, st):
        if not (isinstance(st, ast.Assign) and len(st.targets) == 1 and isinstance(st.targets[0], ast.Name)):
            return None
        v = st.value
        if isinstance(v, ast.Call) and isinstance(v.func, ast.Attribute) and v.func.attr == "get" and 1 <= len(v.args) <= 2 and not v.keywords:
            key = table_of(scope, v.func.value, "dict")
            if key is None:
                return None
            default = v.args[1] if len(v.args) == 2 else ast.Constant(value=None)
            if not isinstance(default, (ast.Name, ast.Attribute)):
                return None
            return st.targets[0].id, key, v.args[0], default
        if isinstance(v, ast.Subscript) and isinstance(v.ctx, ast.Load):
            key = table_of(scope, v.value, "dict")
            if key is None:
                return None
            return st.targets[0].id, key, v.slice, None
        return None

    for f in list(model.functions.values()):
        if f.module.short.startswith("_typeguard"):
            continue
        ch = process(f, f.node.body)
        tr = _Comps(f)
        for s in f.node.body:
            tr.visit(s)
        ch |= tr.changed
        ch |= dispatch(f, f.node.body)
        if ch:
            ast.fix_missing_locations(f.node)
    return sorted(used)


# --------------------------------------------------------------------------- local dicts of flags
def scalarise_local_dicts(model) -> list:
    """`seen = {"#": False, "*": False}; seen["#"] = True; if seen["*"]: ...` -> one local per key.
    Exact when the dict is a literal with constant keys, bound once, and every other occurrence of the name is
    a subscript with one of those constant keys (load or store).  Run after table unrolling, which is what
    produces these shapes out of table-driven code."""
    done = []
    for f in list(model.functions.values()):
        if f.module.short.startswith("_typeguard"):
            continue
        cands = {}
        stores = {}
        for n in _walk_own(f.node):
            if isinstance(n, ast.Name) and isinstance(n.ctx, (ast.Store, ast.Del)):
                stores[n.id] = stores.get(n.id, 0) + 1
            if isinstance(n, ast.Assign) and len(n.targets) == 1 and isinstance(n.targets[0], ast.Name) and isinstance(n.value, ast.Dict) and n.value.keys \
                    and all(isinstance(k, ast.Constant) and isinstance(k.value, (str, int, bool)) for k in n.value.keys):
                keys = [k.value for k in n.value.keys]
                if len(set(keys)) == len(keys):
                    cands[n.targets[0].id] = (n, keys)
        params = {a.arg for a in ast.walk(f.node.args) if isinstance(a, ast.arg)}
        cands = {k: v for k, v in cands.items() if stores.get(k) == 1 and k not in params}
        if not cands:
            continue
        # every other occurrence must be `name[const key]`; nested functions must not see the name at all
        parents = {}
        for p in ast.walk(f.node):
            for c in ast.iter_child_nodes(p):
                parents[id(c)] = p
        for n in ast.walk(f.node):
            if isinstance(n, ast.Name) and n.id in cands:
                asg, keys = cands[n.id]
                if n is asg.targets[0]:
                    continue
                p = parents.get(id(n))
                ok = isinstance(p, ast.Subscript) and p.value is n and isinstance(p.slice, ast.Constant) and p.slice.value in keys \
                    and isinstance(p.ctx, (ast.Load, ast.Store)) and type(p.slice.value) is type(keys[keys.index(p.slice.value)])
                if ok:
                    # ... and the occurrence must be in this function's own scope
                    q = p
                    while q is not None and q is not f.node:
                        if isinstance(q, (ast.FunctionDef, ast.AsyncFunctionDef, ast.Lambda, ast.ClassDef)):
                            ok = False
                            break
                        q = parents.get(id(q))
                if not ok:
                    del cands[n.id]
        if not cands:
            continue
        taken = {x.id for x in ast.walk(f.node) if isinstance(x, ast.Name)} | params

        def local(nm, keys, k):
            base = f"{nm}__{keys.index(k)}"
            return base if base not in taken else base + "_"

        class Tr(ast.NodeTransformer):
            def visit_Subscript(self, n):
                self.generic_visit(n)
                if isinstance(n.value, ast.Name) and n.value.id in cands and isinstance(n.slice, ast.Constant):
                    _, keys = cands[n.value.id]
                    return ast.copy_location(ast.Name(id=local(n.value.id, keys, n.slice.value), ctx=n.ctx), n)
                return n

            def visit_Assign(self, n):
                if len(n.targets) == 1 and isinstance(n.targets[0], ast.Name) and n.targets[0].id in cands and n is cands[n.targets[0].id][0]:
                    nm = n.targets[0].id
                    _, keys = cands[nm]
                    vals = [self.visit(v) for v in n.value.values]
                    return [ast.copy_location(ast.Assign(targets=[ast.Name(id=local(nm, keys, k), ctx=ast.Store())], value=v, lineno=n.lineno), n)
                            for k, v in zip(keys, vals)]
                return self.generic_visit(n)

        Tr().visit(f.node)
        ast.fix_missing_locations(f.node)
        done += [f"{f.qualname}:{nm}" for nm in cands]
    return sorted(done)


# --------------------------------------------------------------------------- conditional expressions
def _as_store(t):
    for x in ast.walk(t):
        if isinstance(x, (ast.Name, ast.Tuple, ast.List, ast.Starred)):
            x.ctx = ast.Store()
    return t


class _DesugarIfExp(ast.NodeTransformer):
    """`x = a if t else b` -> `if t: x = a` / `else: x = b`; `return a if t else b` likewise (chains
    recursively).  The pinned tree has no conditional expression; the rules speak if/else."""

    def __init__(self):
        self.changed = False

    def _split(self, st, get, put):
        v = get(st)
        if not isinstance(v, ast.IfExp):
            return st
        self.changed = True
        a, b = copy.deepcopy(st), copy.deepcopy(st)
        put(a, v.body)
        put(b, v.orelse)
        new = ast.copy_location(ast.If(test=v.test, body=[self._split(a, get, put)], orelse=[self._split(b, get, put)]), st)
        return new

    def visit_Assign(self, n):
        self.generic_visit(n)
        if len(n.targets) == 1 and isinstance(n.targets[0], (ast.Name, ast.Attribute)) and isinstance(n.value, ast.IfExp):
            if isinstance(n.targets[0], ast.Attribute) and not _simple(n.targets[0].value):
                return n
            return self._split(n, lambda s: s.value, lambda s, v: setattr(s, "value", v))
        return n

    def visit_Return(self, n):
        self.generic_visit(n)
        if isinstance(n.value, ast.IfExp):
            return self._split(n, lambda s: s.value, lambda s, v: setattr(s, "value", v))
        return n

    def visit_Lambda(self, n):
        return n


class _NormaliseAnyAll(ast.NodeTransformer):
    """`any(True for x in xs if c)` -> `any(c for x in xs)`; `all(False for x in xs if c)` -> `all(not c for x in xs)`;
    `any(e for x in xs if c)` -> `any(c and e for x in xs)`."""

    def __init__(self):
        self.changed = False

    def visit_Call(self, n):
        self.generic_visit(n)
        if isinstance(n.func, ast.Name) and n.func.id in ("any", "all") and len(n.args) == 1 and not n.keywords and isinstance(n.args[0], (ast.GeneratorExp, ast.ListComp)) \
                and len(n.args[0].generators) == 1 and n.args[0].generators[0].ifs:
            ge = n.args[0]
            g = ge.generators[0]
            cond = g.ifs[0] if len(g.ifs) == 1 else ast.BoolOp(op=ast.And(), values=list(g.ifs))
            elt = ge.elt
            if n.func.id == "any":
                new_elt = cond if (isinstance(elt, ast.Constant) and elt.value is True) else ast.BoolOp(op=ast.And(), values=[cond, elt])
            else:
                negc = ast.UnaryOp(op=ast.Not(), operand=cond)
                new_elt = negc if (isinstance(elt, ast.Constant) and elt.value is False) else ast.BoolOp(op=ast.Or(), values=[negc, elt])
            g.ifs = []
            ge.elt = ast.copy_location(new_elt, elt)
            ast.fix_missing_locations(ge)
            self.changed = True
        return n


def desugar_ifexp(model) -> bool:
    changed = False
    for mod in model.modules.values():
        if mod.short.startswith("_typeguard"):
            continue
        tr0 = _NormaliseAnyAll()
        tr0.visit(mod.tree)
        changed = changed or tr0.changed
    for mod in model.modules.values():
        if mod.short.startswith("_typeguard"):
            continue
        if not any(isinstance(x, ast.IfExp) for x in ast.walk(mod.tree)):
            continue
        tr = _DesugarIfExp()
        # function and class bodies only: module-level statements are data for the rules as they are
        for n in ast.walk(mod.tree):
            if isinstance(n, (ast.FunctionDef, ast.AsyncFunctionDef)):
                for fld in ("body",):
                    new = []
                    for st in n.body:
                        r = tr.visit(st)
                        new += r if isinstance(r, list) else [r]
                    n.body = new
        if tr.changed:
            ast.fix_missing_locations(mod.tree)
            changed = True
    return changed


# --------------------------------------------------------------------------- new context-manager classes
_cm_counter = [0]


def _cm_names_portable(model, cls_info, user_scope) -> bool:
    """every global name read by the class's methods resolves to the same function / class / external object from the user's module
    (functions of the class's own module that the user's module does not import are imported there: the analysed program only)"""
    own = cls_info.module
    need_imports = set()
    for meth in cls_info.methods.values():
        bound_ = {a.arg for a in ast.walk(meth.node.args) if isinstance(a, ast.arg)} | {x.id for x in ast.walk(meth.node) if isinstance(x, ast.Name) and isinstance(x.ctx, ast.Store)}
        for x in ast.walk(meth.node):
            if not (isinstance(x, ast.Name) and isinstance(x.ctx, ast.Load)) or x.id in bound_:
                continue
            b1 = model.resolve_name(meth, x.id)
            b2 = model.resolve_name(user_scope, x.id)
            if b1.kind in ("builtin",) and b2.kind == "builtin":
                continue
            if b1.kind in ("func", "class") and b2.kind == b1.kind and b1.target is b2.target:
                continue
            if b1.kind == "ext" and b2.kind == "ext" and b1.target == b2.target:
                continue
            if b1.kind in ("func", "class") and b2.kind == "unknown" and b1.target.module is own and getattr(b1.target, "parent", None) is None \
                    and getattr(b1.target, "cls", None) is None:
                need_imports.add(x.id)  # a function / class of the class's own module that the user's module does not import (yet)
                continue
            return False  # a module-level variable of the class's module, or a name that means something else over there
    if need_imports:
        umod = user_scope.module
        umod.tree.body.insert(0, ast.ImportFrom(module="_" + own.short.lstrip("_") if False else own.short, names=[ast.alias(name=n_, asname=None) for n_ in sorted(need_imports)], level=1))
        ast.fix_missing_locations(umod.tree)
        model._reindex()
    return True


def _cm_class_ok(cls_node: ast.ClassDef) -> Optional[dict]:
    """{method name: FunctionDef} of a plain class that can be dissolved into its user: no bases (or object), no
    decorators / metaclass, only methods (+ docstring, __slots__), with __enter__ and __exit__."""
    if cls_node.decorator_list or cls_node.keywords or any(norm_base(b) != "object" for b in cls_node.bases):
        return None
    meths = {}
    for b in _strip_doc(list(cls_node.body)):
        if isinstance(b, ast.FunctionDef) and not b.decorator_list:
            a = b.args
            if a.vararg or a.kwarg or a.kwonlyargs or a.posonlyargs or not a.args or a.defaults or a.kw_defaults:
                return None
            if any(isinstance(x, (ast.Yield, ast.YieldFrom, ast.Await, ast.Nonlocal, ast.Global)) for x in ast.walk(b)):
                return None
            meths[b.name] = b
        elif isinstance(b, ast.Assign) and len(b.targets) == 1 and isinstance(b.targets[0], ast.Name) and b.targets[0].id == "__slots__":
            continue
        elif isinstance(b, ast.Pass):
            continue
        else:
            return None
    if "__enter__" not in meths or "__exit__" not in meths or len(meths["__exit__"].args.args) != 4 or len(meths["__enter__"].args.args) != 1:
        return None
    return meths


class _SelfToLocals(ast.NodeTransformer):
    def __init__(self, selfname, prefix, renames):
        self.selfname, self.prefix, self.renames = selfname, prefix, renames
        self.bad = False

    def visit_Attribute(self, n):
        if isinstance(n.value, ast.Name) and n.value.id == self.selfname:
            return ast.copy_location(ast.Name(id=f"{self.prefix}__{n.attr}", ctx=n.ctx), n)
        return self.generic_visit(n)

    def visit_Name(self, n):
        if n.id == self.selfname:
            self.bad = True  # `self` escapes (passed on, returned, compared): the object cannot be dissolved
        if n.id in self.renames:
            return ast.copy_location(ast.Name(id=self.renames[n.id], ctx=n.ctx), n)
        return n

    def visit_FunctionDef(self, n):
        self.bad = True
        return n

    visit_Lambda = visit_AsyncFunctionDef = visit_ClassDef = visit_FunctionDef


def _prune_exc_tests(stmts, excnames, raised: bool):
    """Specialise an __exit__ body for 'left by an exception' / 'left normally': `exc_type is None` and
    friends are decided, the dead branches removed.  None if the exception parameters are used otherwise."""
    def decide(t):
        if isinstance(t, ast.Compare) and len(t.ops) == 1 and isinstance(t.left, ast.Name) and t.left.id in excnames \
                and isinstance(t.comparators[0], ast.Constant) and t.comparators[0].value is None:
            if isinstance(t.ops[0], ast.Is):
                return not raised
            if isinstance(t.ops[0], ast.IsNot):
                return raised
        if isinstance(t, ast.UnaryOp) and isinstance(t.op, ast.Not):
            v = decide(t.operand)
            return None if v is None else not v
        return None

    out = []
    for st in stmts:
        if isinstance(st, ast.If):
            v = decide(st.test)
            if v is not None:
                sub = _prune_exc_tests(st.body if v else st.orelse, excnames, raised)
                if sub is None:
                    return None
                out += sub
                continue
        if any(isinstance(x, ast.Name) and x.id in excnames for x in ast.walk(st)):
            return None
        out.append(st)
    return out


def _strip_falsy_tail_return(stmts):
    """An __exit__ body without its trailing `return False` / `return None` / `return`; None if it has
    any other return (it could swallow the exception)."""
    stmts = list(stmts)
    if stmts and isinstance(stmts[-1], ast.Return) and (stmts[-1].value is None or (isinstance(stmts[-1].value, ast.Constant) and not stmts[-1].value.value)):
        stmts = stmts[:-1]
    if any(isinstance(x, ast.Return) for s in stmts for x in ast.walk(s)):
        return None
    return stmts


def dissolve_new_cm_classes(model, module_names: dict) -> list:
    """`rollback = _Rollback(); with rollback as (a, b): BODY; rollback.restore()` where `_Rollback` is a class that
    does not exist in the pinned tree: the object is dissolved into locals of the using function (`self.x` ->
    `rollback__x`), `__init__` / `__enter__` / plain method calls are spliced in, and the `with` becomes the
    try/except/finally it stands for (`__exit__` specialised for 'left by an exception' / 'left normally').
    Only when the object does not escape (every use is the creation, the `with`, `obj.method(..)` statements or
    `obj.attr`), `__exit__` cannot swallow (ends in a falsy constant) and uses its arguments only in `is None` tests."""
    done = []
    classes = {}
    for mod in model.modules.values():
        if mod.short.startswith("_typeguard"):
            continue
        known = module_names.get(mod.short, set())
        for st in mod.tree.body:
            if isinstance(st, ast.ClassDef) and st.name not in known:
                ms = _cm_class_ok(st)
                if ms is not None:
                    classes[(mod.short, st.name)] = ms
    if not classes:
        return done

    def cls_of(scope, e):
        if isinstance(e, ast.Call) and isinstance(e.func, ast.Name) and not e.keywords and not any(isinstance(a, ast.Starred) for a in e.args):
            b = model.resolve_name(scope, e.func.id)
            if b.kind == "class":
                key = (b.target.module.short, b.target.name)
                # the spliced statements must mean the same in the user's module: same module only; the storage
                # module's classes are roles of their own (flag / stack typestates read them as they are)
                if not isinstance(scope, FuncInfo) or key not in classes:
                    return None
                if scope.module.short != key[0] or key[0] in ROLE_MODULES:
                    # a class of another module (or of the storage module, whose classes normally are roles): only when it is a pure
                    # *user* of names that mean the same thing in the using module -- every global its methods mention is bound to the
                    # same object there (imported from the class's module, or from the same third module), and it touches no
                    # module-level state of its own module directly
                    if scope.module.short == key[0] or not _cm_names_portable(model, b.target, scope):
                        return None
                return key
        return None

    def expand_self_calls(stmts, selfname, meths, depth=0):
        """`self.helper(a)` statements inside a method body -> the helper's body (its own `self` renamed, its
        parameters bound by assignments); None if a helper has a shape that cannot be spliced."""
        out = []
        for st in stmts:
            if isinstance(st, ast.Expr) and isinstance(st.value, ast.Call) and isinstance(st.value.func, ast.Attribute) and isinstance(st.value.func.value, ast.Name) \
                    and st.value.func.value.id == selfname and st.value.func.attr in meths and depth < 3:
                c = st.value
                hm = meths[c.func.attr]
                hp = [a.arg for a in hm.args.args]
                if c.keywords or any(isinstance(a, ast.Starred) for a in c.args) or len(c.args) != len(hp) - 1 or c.func.attr in ("__enter__", "__exit__", "__init__"):
                    return None
                hb = _strip_doc(list(hm.body))
                if hb and isinstance(hb[-1], ast.Return) and (hb[-1].value is None or (isinstance(hb[-1].value, ast.Constant) and hb[-1].value.value is None)):
                    hb = hb[:-1]
                if any(isinstance(x, ast.Return) for s_ in hb for x in ast.walk(s_)):
                    return None
                ren = {hp[0]: selfname}
                pre = []
                for p_, a_ in zip(hp[1:], c.args):
                    tmp = f"{p_}__{c.func.attr}"
                    pre.append(ast.copy_location(ast.Assign(targets=[ast.Name(id=tmp, ctx=ast.Store())], value=a_, lineno=st.lineno), st))
                    ren[p_] = tmp
                hb = [_Subst({}, ren).visit(copy.deepcopy(s_)) for s_ in hb]
                sub = expand_self_calls(hb, selfname, meths, depth + 1)
                if sub is None:
                    return None
                out += pre + sub
                continue
            st = copy.copy(st)
            for fld in ("body", "orelse", "finalbody"):
                blk = getattr(st, fld, None)
                if isinstance(blk, list) and blk and isinstance(blk[0], ast.stmt):
                    sub = expand_self_calls(blk, selfname, meths, depth)
                    if sub is None:
                        return None
                    setattr(st, fld, sub)
            if getattr(st, "handlers", None):
                hs = []
                for hd in st.handlers:
                    hd = copy.copy(hd)
                    sub = expand_self_calls(hd.body, selfname, meths, depth)
                    if sub is None:
                        return None
                    hd.body = sub
                    hs.append(hd)
                st.handlers = hs
            out.append(st)
        return out

    def splice(meth, selfname_prefix, args, taken, target_map=None, meths=None, stable=None):
        """(statements, return expression or None) of a method body bound to `args`; None if unsupported."""
        params = [a.arg for a in meth.args.args]
        if len(args) != len(params) - 1:
            return None
        body = _strip_doc(list(meth.body))
        if meths:
            body = expand_self_calls(body, params[0], meths)
            if body is None:
                return None
        rets = [x for s in body for x in ast.walk(s) if isinstance(x, ast.Return)]
        ret = None
        if rets:
            if len(rets) != 1 or rets[0] is not body[-1]:
                return None
            ret = rets[0].value
            body = body[:-1]
        bound = _names_stored(ast.Module(body=body, type_ignores=[]))
        renames = {}
        for nm in bound:
            if target_map and nm in target_map:
                renames[nm] = target_map[nm]
            elif nm in taken:
                renames[nm] = f"{nm}__cm"
        pre = []
        direct = {}
        for p, a in zip(params[1:], args):
            if stable is not None and _simple(a) and not ({x.id for x in ast.walk(a) if isinstance(x, ast.Name)} & stable) and p not in bound:
                direct[p] = a  # a simple argument whose names are not re-bound while the object lives: read in place
                continue
            tmp = f"{selfname_prefix}__arg_{p}"
            pre.append(ast.Assign(targets=[ast.Name(id=tmp, ctx=ast.Store())], value=a, lineno=getattr(a, "lineno", 1)))
            renames[p] = tmp
        if direct:
            body = [_SubstLoads(direct).visit(copy.deepcopy(s)) for s in body]
            ret = _SubstLoads(direct).visit(copy.deepcopy(ret)) if ret is not None else None
        tr = _SelfToLocals(params[0], selfname_prefix, renames)
        out = [tr.visit(copy.deepcopy(s)) for s in body]
        r = tr.visit(copy.deepcopy(ret)) if ret is not None else None
        if tr.bad:
            return None
        return pre + out, r

    for f in list(model.functions.values()):
        if f.module.short.startswith("_typeguard") or not isinstance(f.node, (ast.FunctionDef, ast.AsyncFunctionDef)):
            continue
        withs = [w for w in _walk_own(f.node) if isinstance(w, ast.With) and len(w.items) == 1]
        for w in withs:
            ce = w.items[0].context_expr
            key, inst, creation = None, None, None
            if isinstance(ce, ast.Name):
                defs = [a for a in _walk_own(f.node) if isinstance(a, ast.Assign) and len(a.targets) == 1 and isinstance(a.targets[0], ast.Name) and a.targets[0].id == ce.id]
                stores = [x for x in _walk_own(f.node) if isinstance(x, ast.Name) and x.id == ce.id and isinstance(x.ctx, (ast.Store, ast.Del))]
                if len(defs) == 1 and len(stores) == 1:
                    key = cls_of(f, defs[0].value)
                    inst, creation = ce.id, defs[0]
            else:
                key = cls_of(f, ce)
                if key is not None:
                    _cm_counter[0] += 1
                    inst = f"__cm{_cm_counter[0]}"
            if key is None:
                continue
            meths = classes[key]
            # `with C(..) as t:` where __enter__ hands back the object itself: `t` is the object
            returns_self = False
            _eb = _strip_doc(list(meths["__enter__"].body))
            _sp = meths["__enter__"].args.args[0].arg
            if creation is not None and _eb and isinstance(_eb[-1], ast.Return) and isinstance(_eb[-1].value, ast.Name) and _eb[-1].value.id == _sp:
                # `obj = C(..)` ... `with obj [as t]:` where __enter__ hands back the object: `t` (if any) is a second name for `obj`
                tgt0 = w.items[0].optional_vars
                if tgt0 is not None:
                    if not isinstance(tgt0, ast.Name):
                        continue
                    if len([x for x in _walk_own(f.node) if isinstance(x, ast.Name) and x.id == tgt0.id and isinstance(x.ctx, (ast.Store, ast.Del))]) != 1:
                        continue
                    for x in ast.walk(f.node):
                        if isinstance(x, ast.Name) and x.id == tgt0.id and x is not tgt0:
                            x.id = inst
                    w.items[0].optional_vars = None
                returns_self = True
            elif creation is None and _eb and isinstance(_eb[-1], ast.Return) and isinstance(_eb[-1].value, ast.Name) and _eb[-1].value.id == _sp:
                tgt0 = w.items[0].optional_vars
                if not isinstance(tgt0, ast.Name):
                    continue
                stores0 = [x for x in _walk_own(f.node) if isinstance(x, ast.Name) and x.id == tgt0.id and isinstance(x.ctx, (ast.Store, ast.Del))]
                if len(stores0) != 1:
                    continue
                returns_self = True
                inst = tgt0.id
            # every use of the instance name
            parents = {}
            for p in ast.walk(f.node):
                for c in ast.iter_child_nodes(p):
                    parents[id(c)] = p
            ok = True
            mcalls = []
            if creation is not None or returns_self:
                for x in ast.walk(f.node):
                    if isinstance(x, ast.Name) and x.id == inst and isinstance(x.ctx, ast.Load):
                        p = parents.get(id(x))
                        if p is w.items[0] or x is ce:
                            continue
                        if isinstance(p, ast.Attribute) and p.value is x:
                            pp = parents.get(id(p))
                            if isinstance(pp, ast.Call) and pp.func is p:
                                st = parents.get(id(pp))
                                if p.attr in meths and isinstance(st, ast.Expr) and st.value is pp and not pp.keywords and not any(isinstance(a, ast.Starred) for a in pp.args):
                                    mcalls.append((st, pp, p.attr))
                                    continue
                                ok = False
                            elif p.attr in meths:
                                ok = False  # a bound method handed elsewhere
                            continue  # a field read: becomes the local
                        ok = False
                # nested functions must not see the object
                for x in ast.walk(f.node):
                    if isinstance(x, (ast.FunctionDef, ast.AsyncFunctionDef, ast.Lambda)) and x is not f.node and any(isinstance(y, ast.Name) and y.id == inst for y in ast.walk(x)):
                        ok = False
            if not ok:
                continue
            taken = {x.id for x in ast.walk(f.node) if isinstance(x, ast.Name)} | set(f.params)
            tgt = w.items[0].optional_vars
            call = creation.value if creation is not None else ce
            init_stmts = []
            if "__init__" in meths:
                # names re-bound while the object lives (inside the with body; anywhere, if it is created earlier)
                unstable = _names_stored(ast.Module(body=list(w.body), type_ignores=[])) if creation is None else _names_stored(f.node)
                sp = splice(meths["__init__"], inst, list(call.args), taken, meths=meths, stable=unstable)
                if sp is None or sp[1] is not None:
                    continue
                init_stmts = sp[0]
            elif call.args:
                continue
            # __enter__: locals returned as a tuple are bound straight to the names of the `as` target
            em = meths["__enter__"]
            target_map = {}
            ebody = _strip_doc(list(em.body))
            eret = ebody[-1].value if ebody and isinstance(ebody[-1], ast.Return) else None
            if isinstance(tgt, (ast.Tuple, ast.List)) and isinstance(eret, ast.Tuple) and len(tgt.elts) == len(eret.elts) \
                    and all(isinstance(e, ast.Name) for e in tgt.elts) and all(isinstance(e, ast.Name) for e in eret.elts):
                for te, re_ in zip(tgt.elts, eret.elts):
                    if te.id != "_":
                        target_map[re_.id] = te.id
            if returns_self:
                em = ast.FunctionDef(name="__enter__", args=em.args, body=_strip_doc(list(em.body))[:-1] or [ast.Pass()], decorator_list=[], lineno=em.lineno)
            sp = splice(em, inst, [], taken - set(target_map.values()), target_map, meths=meths)
            if sp is None:
                continue
            enter_stmts, enter_val = sp
            enter_stmts = [s_ for s_ in enter_stmts if not isinstance(s_, ast.Pass)]
            bind = []
            if returns_self:
                tgt = None  # the name stands for the dissolved object: nothing to bind
            if tgt is not None:
                val = enter_val if enter_val is not None else ast.Constant(value=None)
                same = isinstance(tgt, (ast.Tuple, ast.List)) and isinstance(val, ast.Tuple) and len(tgt.elts) == len(val.elts) and all(
                    isinstance(a, ast.Name) and isinstance(b, ast.Name) and (a.id == b.id or a.id == "_") for a, b in zip(tgt.elts, val.elts))
                if not same:
                    bind = [ast.Assign(targets=[copy.deepcopy(tgt)], value=val, lineno=w.lineno)]
            # __exit__
            xm = meths["__exit__"]
            xparams = [a.arg for a in xm.args.args]
            xbody = _strip_falsy_tail_return(_strip_doc(list(xm.body)))
            if xbody is None:
                continue
            parts = {}
            for raised in (True, False):
                pr = _prune_exc_tests(xbody, set(xparams[1:]), raised)
                if pr is None:
                    break
                fake = ast.FunctionDef(name="__exit__", args=ast.arguments(posonlyargs=[], args=[ast.arg(arg=xparams[0])], kwonlyargs=[], kw_defaults=[], defaults=[]),
                                       body=pr or [ast.Pass()], decorator_list=[], lineno=xm.lineno)
                sp = splice(fake, inst, [], taken, meths=meths)
                if sp is None:
                    break
                parts[raised] = [s for s in sp[0] if not isinstance(s, ast.Pass)]
            if len(parts) != 2:
                continue
            # method-call statements
            repl = {}
            bad = False
            for st, c, name in mcalls:
                if name in ("__enter__", "__exit__", "__init__"):
                    bad = True
                    break
                sp = splice(meths[name], inst, list(c.args), taken, meths=meths)
                if sp is None or (sp[1] is not None and not (isinstance(sp[1], ast.Constant) and sp[1].value is None)):
                    bad = True
                    break
                repl[id(st)] = sp[0] or [ast.Pass()]
            if bad:
                continue
            # build the replacement of the with statement
            body = list(w.body)
            same_exit = [ast.dump(s) for s in parts[True]] == [ast.dump(s) for s in parts[False]]
            if same_exit:
                new_try = ast.Try(body=body, handlers=[], orelse=[], finalbody=parts[True] or [ast.Pass()]) if parts[True] else None
                core = [new_try] if new_try is not None else body
            else:
                handler = ast.ExceptHandler(type=ast.Name(id="BaseException", ctx=ast.Load()), name=None, body=parts[True] + [ast.Raise(exc=None, cause=None)])
                if parts[False]:
                    flag = f"{inst}__left_by_exception"
                    handler.body.insert(0, ast.Assign(targets=[ast.Name(id=flag, ctx=ast.Store())], value=ast.Constant(value=True), lineno=w.lineno))
                    core = [ast.Assign(targets=[ast.Name(id=flag, ctx=ast.Store())], value=ast.Constant(value=False), lineno=w.lineno),
                            ast.Try(body=body, handlers=[handler], orelse=[],
                                    finalbody=[ast.If(test=ast.UnaryOp(op=ast.Not(), operand=ast.Name(id=flag, ctx=ast.Load())), body=parts[False], orelse=[])])]
                else:
                    core = [ast.Try(body=body, handlers=[handler], orelse=[], finalbody=[])]
            new_with = ([] if creation is not None else init_stmts) + enter_stmts + bind + core

            def rewrite(stmts):
                i = 0
                while i < len(stmts):
                    st = stmts[i]
                    if st is w:
                        stmts[i:i + 1] = new_with
                        i += len(new_with)
                        continue
                    if creation is not None and st is creation:
                        stmts[i:i + 1] = init_stmts or [ast.Pass()]
                        i += len(init_stmts or [0])
                        continue
                    if id(st) in repl:
                        new = repl[id(st)]
                        stmts[i:i + 1] = new
                        i += len(new)
                        continue
                    if not isinstance(st, (ast.FunctionDef, ast.AsyncFunctionDef, ast.ClassDef)):
                        for fld in ("body", "orelse", "finalbody"):
                            sub = getattr(st, fld, None)
                            if isinstance(sub, list) and sub and isinstance(sub[0], ast.stmt):
                                rewrite(sub)
                        for hd in getattr(st, "handlers", []) or []:
                            rewrite(hd.body)
                    i += 1

            rewrite(body)  # method-call statements inside the with body itself (the body list is re-used in the replacement)
            for part_ in core:
                if isinstance(part_, ast.Try):
                    part_.body = body
            rewrite(f.node.body)
            # remaining field reads `inst.attr` -> the local
            class Fields(ast.NodeTransformer):
                def visit_Attribute(self, n):
                    if isinstance(n.value, ast.Name) and n.value.id == inst:
                        return ast.copy_location(ast.Name(id=f"{inst}__{n.attr}", ctx=n.ctx), n)
                    return self.generic_visit(n)

            Fields().visit(f.node)
            ast.fix_missing_locations(f.node)
            done.append(f"{f.qualname}:{key[1]}")
            break  # one object per function and round; the model is re-indexed by the caller
    # a dissolved class that nothing mentions any more is dropped (its methods would otherwise still look like
    # users of the storage API to the rules)
    if done:
        for (modshort, cname) in {(d.split(":")[0].split(".")[0], d.split(":")[1]) for d in done}:
            mentioned = False
            for mod in model.modules.values():
                for x in ast.walk(mod.tree):
                    if isinstance(x, ast.Name) and x.id == cname:
                        mentioned = True
                    if isinstance(x, ast.Attribute) and x.attr == cname:
                        mentioned = True
                    if isinstance(x, ast.alias) and x.name == cname:
                        mentioned = True
                    if isinstance(x, ast.Constant) and x.value == cname:
                        mentioned = True
            if not mentioned:
                mod = model.modules.get(modshort)
                if mod is not None:
                    mod.tree.body = [st for st in mod.tree.body if not (isinstance(st, ast.ClassDef) and st.name == cname)]
    return done


class _ReturnAllAny(ast.NodeTransformer):
    """`return all(e for t in xs)` -> `for t in xs: if not e: return False` / `return True` (and the `any` dual):
    the loop the generator stands for (nothing runs after a return, so the loop variables leaking into the function
    scope cannot be observed).  Run *after* helper inlining: a new helper that is `return all(..)` is better
    inlined as the expression it is."""

    def __init__(self):
        self.changed = False

    def visit_Lambda(self, n):
        return n

    def visit_Return(self, n):
        v = n.value
        # `return all(e for t in xs)` -> `for t in xs: if not e: return False` / `return True` (and the `any` dual):
        # the loop the generator stands for (nothing runs after a return, so the loop variables leaking into the
        # function scope cannot be observed)
        if isinstance(v, ast.Call) and isinstance(v.func, ast.Name) and v.func.id in ("all", "any") and len(v.args) == 1 and not v.keywords \
                and isinstance(v.args[0], ast.GeneratorExp) and len(v.args[0].generators) == 1 and not v.args[0].generators[0].is_async \
                and not any(isinstance(x, (ast.NamedExpr, ast.Lambda, ast.Yield, ast.Await)) for x in ast.walk(v.args[0])):
            ge = v.args[0]
            g = ge.generators[0]
            is_all = v.func.id == "all"
            test = ge.elt
            for c_ in reversed(g.ifs):  # `all(e for t in xs if c)`: elements failing c are skipped
                test = ast.BoolOp(op=ast.Or(), values=[ast.UnaryOp(op=ast.Not(), operand=c_), test]) if is_all else ast.BoolOp(op=ast.And(), values=[c_, test])
            cond = ast.UnaryOp(op=ast.Not(), operand=test) if is_all else test
            body = [ast.If(test=cond, body=[ast.Return(value=ast.Constant(value=not is_all))], orelse=[])]
            loop = ast.copy_location(ast.For(target=_as_store(copy.deepcopy(g.target)), iter=g.iter, body=body, orelse=[]), n)
            tail = ast.copy_location(ast.Return(value=ast.Constant(value=is_all)), n)
            ast.fix_missing_locations(loop)
            self.changed = True
            return [loop, tail]
        return n


def desugar_return_all_any(model) -> bool:
    changed = False
    for mod in model.modules.values():
        if mod.short.startswith("_typeguard"):
            continue
        if not any(isinstance(x, ast.Return) and isinstance(x.value, ast.Call) and isinstance(x.value.func, ast.Name) and x.value.func.id in ("all", "any") for x in ast.walk(mod.tree)):
            continue
        tr = _ReturnAllAny()
        for n in ast.walk(mod.tree):
            if isinstance(n, (ast.FunctionDef, ast.AsyncFunctionDef)):
                new = []
                for st in n.body:
                    r = tr.visit(st)
                    new += r if isinstance(r, list) else [r]
                n.body = new
        if tr.changed:
            ast.fix_missing_locations(mod.tree)
            changed = True
    return changed


# --------------------------------------------------------------------------- partial objects and extend(map(..))
_fresh_counter = [0]


def desugar_partials_and_extends(model) -> bool:
    """`g = functools.partial(F, k=v)` (a local bound once, arguments plain names) + `g(x)` -> `F(x, k=v)`;
    `xs.extend(map(f, ys))` / `xs.extend(f(y) for y in ys)` / `xs.extend([f(y) for y in ys])` -> the loop of
    `xs.append(..)` it stands for.  Neither construct occurs in a function body of the pinned tree in this form
    (`ft.partial` is only used as a return value / argument there), so the pass is the identity on it."""
    changed = False
    for f in list(model.functions.values()):
        if f.module.short.startswith("_typeguard") or not isinstance(f.node, (ast.FunctionDef, ast.AsyncFunctionDef)):
            continue
        # local partials
        stores = {}
        for n in _walk_own(f.node):
            if isinstance(n, ast.Name) and isinstance(n.ctx, (ast.Store, ast.Del)):
                stores[n.id] = stores.get(n.id, 0) + 1
        partials = {}
        for n in _walk_own(f.node):
            if isinstance(n, ast.Assign) and len(n.targets) == 1 and isinstance(n.targets[0], ast.Name) and stores.get(n.targets[0].id) == 1 and isinstance(n.value, ast.Call):
                fn = n.value.func
                nm = fn.attr if isinstance(fn, ast.Attribute) else fn.id if isinstance(fn, ast.Name) else None
                if nm == "partial" and n.value.args and _simple(n.value.args[0]) and all(_simple(a) for a in n.value.args[1:]) \
                        and all(k.arg is not None and _simple(k.value) for k in n.value.keywords):
                    # every other occurrence must be a call `g(..)` or `map(g, ..)`
                    name = n.targets[0].id
                    ok = True
                    parents = {}
                    for p in ast.walk(f.node):
                        for c in ast.iter_child_nodes(p):
                            parents[id(c)] = p
                    for x in ast.walk(f.node):
                        if isinstance(x, ast.Name) and x.id == name and isinstance(x.ctx, ast.Load):
                            p = parents.get(id(x))
                            if isinstance(p, ast.Call) and (p.func is x or (isinstance(p.func, ast.Name) and p.func.id == "map" and p.args and p.args[0] is x)):
                                continue
                            ok = False
                    # the names the partial captured must not be re-bound afterwards
                    captured = {y.id for a in list(n.value.args) + [k.value for k in n.value.keywords] for y in ast.walk(a) if isinstance(y, ast.Name)}
                    if ok and not any(stores.get(c, 0) > 1 for c in captured):
                        partials[name] = n
                    elif not ok and not any(stores.get(c, 0) > 1 for c in captured) and isinstance(n.value.args[0], ast.Name) and not n.value.keywords:
                        # the partial is also handed on as a value (`is_leaf=g`): when it binds the leading positional parameters of a *new*
                        # module-level function of the package, write it as the lambda it stands for (the helper is inlined into it later)
                        b_ = model.resolve_name(f, n.value.args[0].id)
                        tgt = b_.target if b_.kind == "func" else None
                        try:
                            from .inventory import FUNCTIONS as _FN
                        except ImportError:
                            _FN = ()
                        if tgt is not None and tgt.qualname not in _FN and tgt.cls is None and not isinstance(tgt.parent, FuncInfo) and isinstance(tgt.node, ast.FunctionDef):
                            a_ = tgt.node.args
                            nb = len(n.value.args) - 1
                            if not a_.vararg and not a_.kwarg and not a_.kwonlyargs and not a_.posonlyargs and not a_.defaults and nb < len(a_.args):
                                rest = [x.arg for x in a_.args[nb:]]
                                if not (set(rest) & captured):
                                    lam = ast.Lambda(args=ast.arguments(posonlyargs=[], args=[ast.arg(arg=r_) for r_ in rest], kwonlyargs=[], kw_defaults=[], defaults=[]),
                                                     body=ast.Call(func=copy.deepcopy(n.value.args[0]), args=[copy.deepcopy(x) for x in n.value.args[1:]] + [ast.Name(id=r_, ctx=ast.Load()) for r_ in rest],
                                                                   keywords=[]))
                                    n.value = ast.copy_location(lam, n.value)
                                    ast.fix_missing_locations(n)
                                    changed = True
        if partials:
            class Tr(ast.NodeTransformer):
                def visit_Call(self, c):
                    self.generic_visit(c)
                    if isinstance(c.func, ast.Name) and c.func.id in partials:
                        pc = partials[c.func.id].value
                        return ast.copy_location(ast.Call(func=copy.deepcopy(pc.args[0]), args=[copy.deepcopy(a) for a in pc.args[1:]] + c.args,
                                                          keywords=[copy.deepcopy(k) for k in pc.keywords] + c.keywords), c)
                    if isinstance(c.func, ast.Name) and c.func.id == "map" and len(c.args) == 2 and isinstance(c.args[0], ast.Name) and c.args[0].id in partials:
                        pc = partials[c.args[0].id].value
                        _fresh_counter[0] += 1
                        v = f"__m{_fresh_counter[0]}"
                        elt = ast.Call(func=copy.deepcopy(pc.args[0]), args=[copy.deepcopy(a) for a in pc.args[1:]] + [ast.Name(id=v, ctx=ast.Load())],
                                       keywords=[copy.deepcopy(k) for k in pc.keywords])
                        return ast.copy_location(ast.GeneratorExp(elt=elt, generators=[ast.comprehension(target=ast.Name(id=v, ctx=ast.Store()), iter=c.args[1], ifs=[], is_async=0)]), c)
                    return c

                def visit_FunctionDef(self, n_):
                    return n_ if n_ is not f.node else self.generic_visit(n_)

                visit_AsyncFunctionDef = visit_FunctionDef
                visit_Lambda = lambda self, n_: n_  # noqa: E731

            Tr().visit(f.node)

            def drop(stmts):
                for i, st in enumerate(list(stmts)):
                    if any(st is a for a in partials.values()):
                        stmts.remove(st)
                        if not stmts:
                            stmts.append(ast.copy_location(ast.Pass(), st))
                        continue
                    for fld in ("body", "orelse", "finalbody"):
                        sub = getattr(st, fld, None)
                        if isinstance(sub, list) and sub and isinstance(sub[0], ast.stmt) and not isinstance(st, (ast.FunctionDef, ast.AsyncFunctionDef, ast.ClassDef)):
                            drop(sub)
                    for hd in getattr(st, "handlers", []) or []:
                        drop(hd.body)

            drop(f.node.body)
            changed = True

        # xs.extend(<map / generator / list comprehension>)
        def extends(stmts):
            ch = False
            i = 0
            while i < len(stmts):
                st = stmts[i]
                if isinstance(st, ast.Expr) and isinstance(st.value, ast.Call) and isinstance(st.value.func, ast.Attribute) and st.value.func.attr == "extend" \
                        and _simple(st.value.func.value) and len(st.value.args) == 1 and not st.value.keywords:
                    a = st.value.args[0]
                    target = it = elt = None
                    if isinstance(a, ast.Call) and isinstance(a.func, ast.Name) and a.func.id == "map" and len(a.args) == 2 and _simple(a.args[0]):
                        _fresh_counter[0] += 1
                        v = f"__m{_fresh_counter[0]}"
                        target, it = ast.Name(id=v, ctx=ast.Store()), a.args[1]
                        elt = ast.Call(func=a.args[0], args=[ast.Name(id=v, ctx=ast.Load())], keywords=[])
                    elif isinstance(a, (ast.GeneratorExp, ast.ListComp)) and len(a.generators) == 1 and not a.generators[0].ifs and not a.generators[0].is_async:
                        target, it, elt = a.generators[0].target, a.generators[0].iter, a.elt
                        # the comprehension variable becomes a function local: it must not clash
                        tn = {y.id for y in ast.walk(target) if isinstance(y, ast.Name)}
                        others = {y.id for y in ast.walk(f.node) if isinstance(y, ast.Name) and not any(y is z for z in ast.walk(a))} | set(f.params)
                        if tn & others:
                            target = None
                    if target is not None:
                        app = ast.Expr(value=ast.Call(func=ast.Attribute(value=st.value.func.value, attr="append", ctx=ast.Load()), args=[elt], keywords=[]))
                        loop = ast.copy_location(ast.For(target=_as_store(copy.deepcopy(target)), iter=it, body=[app], orelse=[]), st)
                        ast.fix_missing_locations(loop)
                        stmts[i] = loop
                        ch = True
                elif not isinstance(st, (ast.FunctionDef, ast.AsyncFunctionDef, ast.ClassDef)):
                    for fld in ("body", "orelse", "finalbody"):
                        sub = getattr(st, fld, None)
                        if isinstance(sub, list) and sub and isinstance(sub[0], ast.stmt):
                            ch |= extends(sub)
                    for hd in getattr(st, "handlers", []) or []:
                        ch |= extends(hd.body)
                i += 1
            return ch

        if extends(f.node.body):
            changed = True
        if changed:
            ast.fix_missing_locations(f.node)
    return changed


# --------------------------------------------------------------------------- contextlib.ExitStack with callbacks
def desugar_exitstacks(model) -> bool:
    """`with ExitStack() as s: s.callback(f, a); BODY` (+ `s.pop_all()` statements inside BODY) ->
    `s__armed = True; try: BODY[s.pop_all() -> s__armed = False] finally: if s__armed: f(a)`.
    Exact when the stack is created in the `with` item, every use of `s` is a leading `s.callback(..)` statement or a
    `s.pop_all()` statement whose result is dropped (callbacks cannot swallow exceptions; several run in reverse
    order).  The pinned tree does not use ExitStack."""
    changed = False
    for f in list(model.functions.values()):
        if f.module.short.startswith("_typeguard") or not isinstance(f.node, (ast.FunctionDef, ast.AsyncFunctionDef)):
            continue

        def rewrite(stmts):
            ch = False
            i = 0
            while i < len(stmts):
                st = stmts[i]
                if isinstance(st, ast.With) and len(st.items) == 1 and isinstance(st.items[0].optional_vars, ast.Name) and isinstance(st.items[0].context_expr, ast.Call) \
                        and not st.items[0].context_expr.args and not st.items[0].context_expr.keywords \
                        and (norm_dotted(st.items[0].context_expr.func) in ("contextlib.ExitStack", "ExitStack")):
                    s = st.items[0].optional_vars.id
                    body = list(st.body)
                    cbs = []
                    while body and isinstance(body[0], ast.Expr) and isinstance(body[0].value, ast.Call) and isinstance(body[0].value.func, ast.Attribute) \
                            and isinstance(body[0].value.func.value, ast.Name) and body[0].value.func.value.id == s and body[0].value.func.attr == "callback" and body[0].value.args:
                        cbs.append(body.pop(0).value)
                    ok = bool(cbs) and bool(body)
                    pops = []
                    if ok:
                        parents = {}
                        for b in body:
                            for p in ast.walk(b):
                                for c in ast.iter_child_nodes(p):
                                    parents[id(c)] = p
                        for b in body:
                            for x in ast.walk(b):
                                if isinstance(x, ast.Name) and x.id == s:
                                    p1 = parents.get(id(x))
                                    p2 = parents.get(id(p1)) if p1 is not None else None
                                    p3 = parents.get(id(p2)) if p2 is not None else None
                                    if isinstance(p1, ast.Attribute) and p1.attr == "pop_all" and isinstance(p2, ast.Call) and not p2.args and (isinstance(p3, ast.Expr) or p2 in body and False):
                                        pops.append(p3)
                                    elif isinstance(p1, ast.Attribute) and p1.attr == "pop_all" and isinstance(p2, ast.Call) and isinstance(p3, ast.Expr):
                                        pops.append(p3)
                                    else:
                                        ok = False
                        # uses of s after the with statement
                        for later in stmts[i + 1:]:
                            if any(isinstance(x, ast.Name) and x.id == s for x in ast.walk(later)):
                                ok = False
                    if ok:
                        flag = f"{s}__armed"

                        class Tr(ast.NodeTransformer):
                            def visit_Expr(self, n):
                                if any(n is p for p in pops):
                                    return ast.copy_location(ast.Assign(targets=[ast.Name(id=flag, ctx=ast.Store())], value=ast.Constant(value=False), lineno=n.lineno), n)
                                return n

                            def visit_FunctionDef(self, n):
                                return n

                            visit_AsyncFunctionDef = visit_Lambda = visit_FunctionDef

                        body = [Tr().visit(b) for b in body]
                        calls = [ast.Expr(value=ast.Call(func=c.args[0], args=list(c.args[1:]), keywords=list(c.keywords))) for c in reversed(cbs)]
                        new = [ast.Assign(targets=[ast.Name(id=flag, ctx=ast.Store())], value=ast.Constant(value=True), lineno=st.lineno),
                               ast.Try(body=body, handlers=[], orelse=[], finalbody=[ast.If(test=ast.Name(id=flag, ctx=ast.Load()), body=calls, orelse=[])])]
                        for n_ in new:
                            ast.copy_location(n_, st)
                            ast.fix_missing_locations(n_)
                        stmts[i:i + 1] = new
                        ch = True
                        i += 2
                        continue
                if not isinstance(st, (ast.FunctionDef, ast.AsyncFunctionDef, ast.ClassDef)):
                    for fld in ("body", "orelse", "finalbody"):
                        sub = getattr(st, fld, None)
                        if isinstance(sub, list) and sub and isinstance(sub[0], ast.stmt):
                            ch |= rewrite(sub)
                    for hd in getattr(st, "handlers", []) or []:
                        ch |= rewrite(hd.body)
                i += 1
            return ch

        if rewrite(f.node.body):
            ast.fix_missing_locations(f.node)
            changed = True
    return changed


def norm_dotted(e) -> str:
    parts = []
    while isinstance(e, ast.Attribute):
        parts.append(e.attr)
        e = e.value
    if isinstance(e, ast.Name):
        parts.append(e.id)
    return ".".join(reversed(parts))


# --------------------------------------------------------------------------- constant folding after inlining
def fold_after_inlining(model, changed_qualnames) -> bool:
    """A helper parameterised by a constant (`_raise_error(_STAGE_RETURN, ..)`: `if stage == _STAGE_RETURN`) leaves
    comparisons of two constants behind once it is inlined and its constants are substituted.  In the functions that
    received inlined code: `c1 == c2` / `c1 is c2` / `c1 in (..)` of literals are evaluated, a local bound exactly once
    to a literal bool / None / str is substituted into `if` tests, and `if True:` / `if False:` keep only the live branch."""
    import operator

    OPS = {ast.Eq: operator.eq, ast.NotEq: operator.ne, ast.Is: operator.is_, ast.IsNot: operator.is_not,
           ast.In: lambda a, b: a in b, ast.NotIn: lambda a, b: a not in b}
    any_change = False

    def lit(e):
        if isinstance(e, ast.Constant):
            return True, e.value
        if isinstance(e, (ast.Tuple, ast.List, ast.Set)) and all(isinstance(x, ast.Constant) for x in e.elts):
            return True, tuple(x.value for x in e.elts)
        return False, None

    class Fold(ast.NodeTransformer):
        def __init__(self, consts):
            self.consts = consts
            self.changed = False

        def visit_Compare(self, n):
            self.generic_visit(n)
            if len(n.ops) == 1 and type(n.ops[0]) in OPS:
                a_ok, a = lit(n.left)
                b_ok, b = lit(n.comparators[0])
                if a_ok and b_ok and not isinstance(a, float) and not isinstance(b, float):
                    if isinstance(n.ops[0], (ast.Is, ast.IsNot)) and not (a is None or b is None or isinstance(a, bool) or isinstance(b, bool)):
                        return n  # identity of other literals is an implementation detail
                    try:
                        v = OPS[type(n.ops[0])](a, b)
                    except Exception:
                        return n
                    self.changed = True
                    return ast.copy_location(ast.Constant(value=bool(v)), n)
            return n

        def visit_UnaryOp(self, n):
            self.generic_visit(n)
            if isinstance(n.op, ast.Not) and isinstance(n.operand, ast.Constant):
                self.changed = True
                return ast.copy_location(ast.Constant(value=not n.operand.value), n)
            return n

        def visit_BoolOp(self, n):
            self.generic_visit(n)
            vals = []
            for v in n.values:
                if isinstance(v, ast.Constant):
                    if isinstance(n.op, ast.And) and not v.value or isinstance(n.op, ast.Or) and v.value:
                        vals.append(v)
                        break  # short-circuits here
                    if v is not n.values[-1]:
                        continue  # neutral element (not last: the last operand is the value of the expression)
                vals.append(v)
            if len(vals) != len(n.values):
                self.changed = True
                if len(vals) == 1:
                    return vals[0]
                n.values = vals
            return n

        def _test(self, t):
            if isinstance(t, ast.Name) and t.id in self.consts:
                self.changed = True
                return ast.copy_location(ast.Constant(value=self.consts[t.id]), t)
            if isinstance(t, ast.UnaryOp) and isinstance(t.op, ast.Not):
                t.operand = self._test(t.operand)
                if isinstance(t.operand, ast.Constant):
                    return ast.copy_location(ast.Constant(value=not t.operand.value), t)
            return t

        def visit_If(self, n):
            n.test = self._test(n.test)
            self.generic_visit(n)
            if isinstance(n.test, ast.Constant):
                self.changed = True
                live = n.body if n.test.value else n.orelse
                return live or [ast.copy_location(ast.Pass(), n)]
            return n

        def visit_FunctionDef(self, n):
            return n

        visit_AsyncFunctionDef = visit_Lambda = visit_ClassDef = visit_FunctionDef

    for q in sorted(set(changed_qualnames)):
        f = model.functions.get(q)
        if f is None or not isinstance(f.node, (ast.FunctionDef, ast.AsyncFunctionDef)):
            continue
        for _round in range(3):
            stores = {}
            for x in _walk_own(f.node):
                if isinstance(x, ast.Name) and isinstance(x.ctx, (ast.Store, ast.Del)):
                    stores[x.id] = stores.get(x.id, 0) + 1
            consts = {}
            pre = Fold({})
            f.node.body = [y for st in f.node.body for y in (lambda r: r if isinstance(r, list) else [r])(pre.visit(st))]
            for x in _walk_own(f.node):
                if isinstance(x, ast.Assign) and len(x.targets) == 1 and isinstance(x.targets[0], ast.Name) and stores.get(x.targets[0].id) == 1 \
                        and isinstance(x.value, ast.Constant) and (x.value.value is None or isinstance(x.value.value, (bool, str))) and x.targets[0].id not in f.params:
                    consts[x.targets[0].id] = x.value.value
            tr = Fold(consts)
            f.node.body = [y for st in f.node.body for y in (lambda r: r if isinstance(r, list) else [r])(tr.visit(st))]
            if not (tr.changed or pre.changed):
                break
            any_change = True
        ast.fix_missing_locations(f.node)
    return any_change


# --------------------------------------------------------------------------- local aliases
def _alias_value_ok(e) -> bool:
    """plain name / attribute chain, `len(<chain>)`, or + / - of such things and integer literals"""
    if isinstance(e, ast.Constant):
        return isinstance(e.value, int) and not isinstance(e.value, bool)
    if _simple(e):
        return True
    if isinstance(e, ast.Call) and isinstance(e.func, ast.Name) and e.func.id in ("len", "type") and len(e.args) == 1 and not e.keywords and _simple(e.args[0]):
        return True
    if isinstance(e, ast.BinOp) and isinstance(e.op, (ast.Add, ast.Sub)):
        return _alias_value_ok(e.left) and _alias_value_ok(e.right)
    if isinstance(e, ast.Compare) and len(e.ops) == 1 and isinstance(e.ops[0], (ast.Is, ast.IsNot, ast.Eq, ast.NotEq)) and _simple(e.left) and _simple(e.comparators[0]):
        return True  # `has_return = sig.return_annotation is not inspect.Signature.empty`
    return False


def propagate_local_aliases(model, changed: set) -> list:
    """`cls_dims = cls.dims` ... `cls_dims[:i]` -> `cls.dims[:i]`; `n = len(cls.dims); m = n - 1` ... `len(obj.shape) < m` ->
    `len(obj.shape) < len(cls.dims) - 1`: a local bound exactly once to a plain name / attribute chain / `len()` of one /
    a sum or difference of such things, whose root names are never re-bound in the function and which is only read in the
    statements that follow its binding in the same block, is replaced by that expression (the rules are anchored in the
    pinned spellings `cls.dims`, `obj.shape`, `bound.arguments`).  Only in functions whose source differs from the pinned
    tree (`changed`: qualified names), so that the pinned code is analysed as written.  For a static reading an attribute
    chain evaluated once or at every use is the same expression."""
    done = []
    for q in sorted(changed):
        f = model.functions.get(q)
        if f is None or f.module.short.startswith("_typeguard") or not isinstance(f.node, (ast.FunctionDef, ast.AsyncFunctionDef)):
            continue
        params = set(f.params)
        for _round in range(4):
            stores = {}
            for x in ast.walk(f.node):  # nested functions included: a closure re-binding the name spoils it
                if isinstance(x, ast.Name) and isinstance(x.ctx, (ast.Store, ast.Del)):
                    stores[x.id] = stores.get(x.id, 0) + 1
                if isinstance(x, (ast.Global, ast.Nonlocal)):
                    for nm in x.names:
                        stores[nm] = stores.get(nm, 0) + 2
            written = {y.attr for y in ast.walk(f.node) if isinstance(y, ast.Attribute) and isinstance(y.ctx, (ast.Store, ast.Del))}
            loads = {}
            for x in ast.walk(f.node):
                if isinstance(x, ast.Name) and isinstance(x.ctx, ast.Load):
                    loads[x.id] = loads.get(x.id, 0) + 1
            hit = [None]

            def scan(stmts):
                for k, st in enumerate(stmts):
                    if hit[0] is not None:
                        return
                    if isinstance(st, ast.Assign) and len(st.targets) == 1 and isinstance(st.targets[0], ast.Name) and stores.get(st.targets[0].id) == 1 \
                            and st.targets[0].id not in params and _alias_value_ok(st.value) and not isinstance(st.value, ast.Constant):
                        nm = st.targets[0].id
                        roots = {y.id for y in ast.walk(st.value) if isinstance(y, ast.Name)} - {"len", "type"}
                        chain_attrs = {y.attr for y in ast.walk(st.value) if isinstance(y, ast.Attribute)}
                        after = sum(1 for later in stmts[k + 1:] for y in ast.walk(later) if isinstance(y, ast.Name) and y.id == nm and isinstance(y.ctx, ast.Load))
                        in_closure = any(isinstance(fn_, (ast.FunctionDef, ast.AsyncFunctionDef, ast.Lambda)) and fn_ is not f.node
                                         and any(isinstance(y, ast.Name) and y.id == nm for y in ast.walk(fn_)) for fn_ in ast.walk(f.node))
                        # read from a closure: the roots must already have their final value when the alias is bound
                        # (every store to them comes earlier in the text and none is inside a nested function)
                        store_lines = {}
                        for y in ast.walk(f.node):
                            if isinstance(y, ast.Name) and isinstance(y.ctx, (ast.Store, ast.Del)) and y.id in roots:
                                store_lines.setdefault(y.id, []).append(getattr(y, "lineno", 10 ** 9))
                        settled = all(max(v) < st.lineno for v in store_lines.values()) and not any(
                            isinstance(fn_, (ast.FunctionDef, ast.AsyncFunctionDef, ast.Lambda)) and fn_ is not f.node and any(
                                isinstance(y, ast.Name) and isinstance(y.ctx, (ast.Store, ast.Del)) and y.id in roots for y in ast.walk(fn_)) for fn_ in ast.walk(f.node))
                        roots_ok = all(stores.get(r_, 0) == 0 for r_ in roots) or settled
                        if not roots_ok and not in_closure:
                            # a root that is only ever bound as the target of a loop whose body contains this statement: stable within the iteration
                            def _loop_bound(r_):
                                ss = [y for y in ast.walk(f.node) if isinstance(y, ast.Name) and y.id == r_ and isinstance(y.ctx, (ast.Store, ast.Del))]
                                for y in ss:
                                    lps = [lp for lp in ast.walk(f.node) if isinstance(lp, ast.For) and any(z is y for z in ast.walk(lp.target))
                                           and any(z is st for b_ in lp.body for z in ast.walk(b_))]
                                    if not lps:
                                        return False
                                return bool(ss)
                            roots_ok = all(stores.get(r_, 0) == 0 or _loop_bound(r_) for r_ in roots)
                        if isinstance(st.value, ast.Name):
                            roots_ok = False  # a second name for another local / parameter is how aliasing defects look: kept as written
                        if in_closure:
                            # the closure runs later: state reachable from a module-level object of the package (`config.x`) may
                            # have changed by then -- only chains rooted in the enclosing function's own locals / parameters and
                            # in external modules are settled values
                            for r_ in roots:
                                b_ = model.resolve_name(f, r_)
                                if b_.kind not in ("local", "param", "ext", "module", "builtin", "freevar"):
                                    roots_ok = False
                        if roots_ok and nm not in roots and not (chain_attrs & written) and after == loads.get(nm, 0) and after > 0 and (not in_closure or settled):
                            hit[0] = (stmts, k, nm, st.value)
                            return
                    if isinstance(st, (ast.FunctionDef, ast.AsyncFunctionDef, ast.ClassDef)):
                        continue
                    for fld in ("body", "orelse", "finalbody"):
                        sub = getattr(st, fld, None)
                        if isinstance(sub, list) and sub and isinstance(sub[0], ast.stmt):
                            scan(sub)
                    for hd in getattr(st, "handlers", []) or []:
                        scan(hd.body)

            scan(f.node.body)
            if hit[0] is None:
                break
            stmts, k, nm, val = hit[0]

            class Tr(ast.NodeTransformer):
                def visit_Name(self, n):
                    if isinstance(n.ctx, ast.Load) and n.id == nm:
                        return ast.copy_location(copy.deepcopy(val), n)
                    return n

            for later in stmts[k + 1:]:
                Tr().visit(later)
            del stmts[k]
            if not stmts:
                stmts.append(ast.Pass())
            done.append(f"{q}:{nm}")
        ast.fix_missing_locations(f.node)
    return done


# --------------------------------------------------------------------------- parameter objects
def _new_records(model, module_names: dict) -> dict:
    """(module short, class name) -> [field names]: new NamedTuple / dataclass / plain `__init__`-stores-its-parameters classes
    without methods of their own (a bundle of values)."""
    out = {}
    for mod in model.modules.values():
        if mod.short.startswith("_typeguard"):
            continue
        known = module_names.get(mod.short, set())
        for st in mod.tree.body:
            if not isinstance(st, ast.ClassDef) or st.name in known or st.keywords:
                continue
            body = _strip_doc(list(st.body))
            fields = None
            is_nt = len(st.bases) == 1 and norm_base(st.bases[0]) == "NamedTuple" and not st.decorator_list
            is_dc = not st.bases and len(st.decorator_list) == 1 and norm_dotted(st.decorator_list[0].func if isinstance(st.decorator_list[0], ast.Call) else st.decorator_list[0]).split(".")[-1] == "dataclass"
            if is_nt or is_dc:
                if all(isinstance(b, ast.AnnAssign) and isinstance(b.target, ast.Name) and b.value is None for b in body) and body:
                    fields = [b.target.id for b in body]
            elif not st.bases and not st.decorator_list:
                inits = [b for b in body if isinstance(b, ast.FunctionDef)]
                rest = [b for b in body if not isinstance(b, ast.FunctionDef) and not (isinstance(b, ast.Assign) and isinstance(b.targets[0], ast.Name) and b.targets[0].id == "__slots__")]
                if len(inits) == 1 and inits[0].name == "__init__" and not rest:
                    ini = inits[0]
                    ps = [a.arg for a in ini.args.args]
                    ok = not (ini.args.vararg or ini.args.kwarg or ini.args.kwonlyargs or ini.args.defaults) and len(ps) >= 2
                    flds = []
                    for b in _strip_doc(list(ini.body)):
                        if ok and isinstance(b, ast.Assign) and len(b.targets) == 1 and isinstance(b.targets[0], ast.Attribute) and isinstance(b.targets[0].value, ast.Name) \
                                and b.targets[0].value.id == ps[0] and isinstance(b.value, ast.Name) and b.value.id in ps[1:] and b.targets[0].attr.lstrip("_") == b.value.id.lstrip("_"):
                            flds.append((b.value.id, b.targets[0].attr))
                        else:
                            ok = False
                    if ok and [p_ for p_, _ in flds] == ps[1:]:
                        fields = [a_ for _, a_ in flds]
            if fields:
                out[(mod.short, st.name)] = fields
    return out


def dissolve_parameter_objects(model, module_names: dict) -> list:
    """`impl(_CallInfo(args, kwargs, bound.arguments, memos))` with `def impl(call): ... call.args ...` ->
    `impl(args, kwargs, bound.arguments, memos)` with `def impl(args, kwargs, arguments, memos)`: a new record class whose
    instances are only ever built at call sites (or bound to a local first), handed to package functions as one argument, and
    read field by field there, is replaced by its fields.  All-or-nothing per record class: any other use of an instance
    (stored, returned, compared, a field assigned) leaves everything as it is."""
    recs = _new_records(model, module_names)
    if not recs:
        return []
    done = []
    for key, fields in recs.items():
        cname = key[1]

        def is_ctor(scope, e):
            if isinstance(e, ast.Call) and isinstance(e.func, ast.Name) and e.func.id == cname and not any(isinstance(a, ast.Starred) for a in e.args):
                b = model.resolve_name(scope, cname)
                return b.kind == "class" and (b.target.module.short, b.target.name) == key
            return False

        def ctor_fields(e):
            vals = {}
            for f_, a in zip(fields, e.args):
                vals[f_] = a
            for k in e.keywords:
                if k.arg is None:
                    return None
                vals[k.arg if k.arg in fields else "_" + k.arg] = k.value
            return [vals[f_] for f_ in fields] if set(vals) == set(fields) else None

        # plan: which (function, parameter) pairs receive a record
        recv = {}  # qualname -> param name
        plan_ok = True
        work = []
        for f in model.functions.values():
            if f.module.short.startswith("_typeguard"):
                continue
            for c in model.calls_in(f):
                for i, a in enumerate(list(c.args) + [k.value for k in c.keywords]):
                    if is_ctor(f, a):
                        work.append((f, c, a))
        if not work:
            continue
        # every mention of the class name must be a constructor call in argument position (or an annotation)
        ann_ok = True
        for mod in model.modules.values():
            if mod.short.startswith("_typeguard"):
                continue
            parents = {}
            for p in ast.walk(mod.tree):
                for c in ast.iter_child_nodes(p):
                    parents[id(c)] = p
            for x in ast.walk(mod.tree):
                if isinstance(x, ast.Name) and x.id == cname and isinstance(x.ctx, ast.Load):
                    p = parents.get(id(x))
                    if isinstance(p, ast.Call) and p.func is x:
                        pp = parents.get(id(p))
                        if isinstance(pp, ast.Call) and (p in pp.args or any(k.value is p for k in pp.keywords)):
                            continue
                        ann_ok = False
                    elif isinstance(p, ast.arg) or isinstance(p, (ast.AnnAssign,)) or isinstance(p, ast.FunctionDef):
                        continue  # annotation
                    elif isinstance(p, ast.Subscript) or isinstance(p, ast.Attribute):
                        ann_ok = False
                    else:
                        ann_ok = False
        if not ann_ok:
            continue

        def param_for(callee, call, arg):
            ps = list(callee.params)
            off = 0
            if callee.cls is not None and isinstance(call.func, ast.Attribute) and ps and ps[0] in ("self", "cls", "mcs"):
                off = 1
            if arg in call.args:
                i = call.args.index(arg) + off
                return ps[i] if i < len(ps) else None
            for k in call.keywords:
                if k.value is arg:
                    return k.arg if k.arg in ps else None
            return None

        frontier = []
        for f, c, a in work:
            t = model.resolve_call(f, c)
            if t.kind != "func" or ctor_fields(a) is None:
                plan_ok = False
                break
            p_ = param_for(t.target, c, a)
            if p_ is None or (t.target.qualname in recv and recv[t.target.qualname] != p_):
                plan_ok = False
                break
            if t.target.qualname not in recv:
                recv[t.target.qualname] = p_
                frontier.append(t.target)
        # receivers: the parameter is only read field by field or handed on whole
        passes = []  # (function, call, arg name node)
        while plan_ok and frontier:
            g = frontier.pop()
            p_ = recv[g.qualname]
            parents = {}
            for p in ast.walk(g.node):
                for c in ast.iter_child_nodes(p):
                    parents[id(c)] = p
            for x in ast.walk(g.node):
                if isinstance(x, ast.Name) and x.id == p_:
                    if isinstance(x.ctx, (ast.Store, ast.Del)):
                        plan_ok = False
                        break
                    par = parents.get(id(x))
                    if isinstance(par, ast.Attribute) and par.value is x and isinstance(par.ctx, ast.Load) and par.attr in fields:
                        continue
                    if isinstance(par, ast.Call) and (x in par.args or any(k.value is x for k in par.keywords)):
                        # handed on whole -- from the scope that owns the parameter (not from a nested function)
                        t = model.resolve_call(g, par)
                        if t.kind == "func":
                            q_ = param_for(t.target, par, x)
                            if q_ is not None and recv.get(t.target.qualname, q_) == q_:
                                if t.target.qualname not in recv:
                                    recv[t.target.qualname] = q_
                                    frontier.append(t.target)
                                passes.append((g, par, x))
                                continue
                    plan_ok = False
                    break
            # a nested function that reads the parameter as a free variable keeps working after the rename (same names)
        # every call of a receiver passes a record in that position
        if plan_ok:
            for q_, p_ in recv.items():
                g = model.functions[q_]
                for f in model.functions.values():
                    if f.module.short.startswith("_typeguard"):
                        continue
                    for c in model.calls_in(f):
                        t = model.resolve_call(f, c)
                        if t.kind == "func" and t.target is g:
                            ps = list(g.params)
                            off = 1 if (g.cls is not None and isinstance(c.func, ast.Attribute) and ps and ps[0] in ("self", "cls", "mcs")) else 0
                            idx = ps.index(p_) - off
                            a = c.args[idx] if 0 <= idx < len(c.args) else next((k.value for k in c.keywords if k.arg == p_), None)
                            if a is None or any(isinstance(z, ast.Starred) for z in c.args[:idx + 1]):
                                plan_ok = False
                            elif not (is_ctor(f, a) or (isinstance(a, ast.Name) and recv.get(f.qualname) == a.id)):
                                plan_ok = False
        if not plan_ok:
            continue
        # rewrite receivers
        newnames = {}
        for q_, p_ in recv.items():
            g = model.functions[q_]
            taken = (set(g.params) | g.local_names() | {y.id for y in ast.walk(g.node) if isinstance(y, ast.Name)}) - {p_}
            names = [f_.lstrip("_") if f_.lstrip("_") not in taken else f"{p_}__{f_.lstrip('_')}" for f_ in fields]
            newnames[q_] = names
        for q_, p_ in recv.items():
            g = model.functions[q_]
            names = newnames[q_]

            class Tr(ast.NodeTransformer):
                def visit_Attribute(self, n):
                    if isinstance(n.value, ast.Name) and n.value.id == p_ and n.attr in fields:
                        return ast.copy_location(ast.Name(id=names[fields.index(n.attr)], ctx=ast.Load()), n)
                    return self.generic_visit(n)

            for st in g.node.body:
                Tr().visit(st)
            a = g.node.args
            for lst in (a.posonlyargs, a.args, a.kwonlyargs):
                for i, ar in enumerate(list(lst)):
                    if ar.arg == p_:
                        lst[i:i + 1] = [ast.arg(arg=nm, annotation=None) for nm in names]
        # rewrite call sites
        for f in list(model.functions.values()):
            if f.module.short.startswith("_typeguard"):
                continue
            for c in model.calls_in(f):
                t = model.resolve_call(f, c)
                if t.kind != "func" or t.target.qualname not in recv:
                    continue
                g = t.target
                p_ = recv[g.qualname]
                names = newnames[g.qualname]
                for i, a in enumerate(list(c.args)):
                    vals = None
                    if is_ctor(f, a):
                        vals = ctor_fields(a)
                    elif isinstance(a, ast.Name) and recv.get(f.qualname) == a.id:
                        vals = [ast.Name(id=nm, ctx=ast.Load()) for nm in newnames[f.qualname]]
                    if vals is not None and param_for_index(g, c, i) == p_:
                        c.args[i:i + 1] = vals
                        break
                else:
                    for k in list(c.keywords):
                        if k.arg == p_:
                            vals = ctor_fields(k.value) if is_ctor(f, k.value) else [ast.Name(id=nm, ctx=ast.Load()) for nm in newnames.get(f.qualname, [])]
                            j = c.keywords.index(k)
                            c.keywords[j:j + 1] = [ast.keyword(arg=nm, value=v) for nm, v in zip(names, vals)]
        for mod in model.modules.values():
            ast.fix_missing_locations(mod.tree)
        done.append(".".join(key))
    return done


def param_for_index(callee, call, i):
    ps = list(callee.params)
    off = 1 if (callee.cls is not None and isinstance(call.func, ast.Attribute) and ps and ps[0] in ("self", "cls", "mcs")) else 0
    return ps[i + off] if i + off < len(ps) else None


def dissolve_attribute_records(model, module_names: dict) -> list:
    """`Finder(mods, _Settings(Typechecker(tc), pf))` with `def __init__(self, mods, settings): self._settings = settings` and
    `self._settings.typechecker` everywhere else -> `Finder(mods, Typechecker(tc), pf)`, `self._typechecker = typechecker; ...`,
    `self._typechecker`.  A new record class whose instances are only built in constructor calls of package classes, kept by
    those constructors in one attribute, read field by field through that attribute and handed on whole only to other
    constructors that do the same, is replaced by its fields (attribute `_<field>`).  All-or-nothing per record class."""
    recs = _new_records(model, module_names)
    done = []
    for key, fields in recs.items():
        cname = key[1]
        attr_of_field = {f_: "_" + f_.lstrip("_") for f_ in fields}

        def is_ctor(scope, e):
            if isinstance(e, ast.Call) and isinstance(e.func, ast.Name) and e.func.id == cname and not e.keywords and len(e.args) == len(fields) \
                    and not any(isinstance(a, ast.Starred) for a in e.args):
                b = model.resolve_name(scope, cname)
                return b.kind == "class" and (b.target.module.short, b.target.name) == key
            return False

        def class_of_call(scope, call):
            t = model.resolve_call(scope, call)
            if t.kind == "class":
                return t.target
            # `cls(..)` inside a classmethod
            if isinstance(call.func, ast.Name) and scope.cls is not None and scope.params and call.func.id == scope.params[0] and _decorator_kind(scope) == "class":
                return scope.cls
            return None

        # holders: class -> (init param, attribute)
        holders = {}
        ok = True
        sites = []  # (scope function, call, arg node or keyword node, holder class)
        for f in model.functions.values():
            if f.module.short.startswith("_typeguard"):
                continue
            for c in model.calls_in(f):
                for a in list(c.args) + [k.value for k in c.keywords]:
                    if is_ctor(f, a):
                        K_ = class_of_call(f, c)
                        if K_ is None:
                            ok = False
                            continue
                        sites.append((f, c, a, K_))
        if not ok or not sites:
            continue

        def holder_info(K, call, arg):
            ini = model.lookup_method(K, "__init__")
            if ini is None or ini.cls is not K:
                return None
            ps = list(ini.params)
            if arg in call.args:
                i = call.args.index(arg) + 1
                if any(isinstance(z, ast.Starred) for z in call.args[:i]) or i >= len(ps) or ini.node.args.vararg and i > len(ini.node.args.posonlyargs + ini.node.args.args) - 1:
                    return None
                p_ = ps[i]
            else:
                kw = next((k for k in call.keywords if k.value is arg), None)
                if kw is None or kw.arg not in ps:
                    return None
                p_ = kw.arg
            # uses of the parameter in __init__: exactly one `self.A = p`
            uses = [x for x in ast.walk(ini.node) if isinstance(x, ast.Name) and x.id == p_]
            stores = [st for st in walk_scope(ini.node) if isinstance(st, ast.Assign) and len(st.targets) == 1 and isinstance(st.targets[0], ast.Attribute)
                      and isinstance(st.targets[0].value, ast.Name) and st.targets[0].value.id == ps[0] and isinstance(st.value, ast.Name) and st.value.id == p_]
            if len(uses) != 1 or len(stores) != 1:
                return None
            return ini, p_, stores[0].targets[0].attr, stores[0]

        work = list(sites)
        seen_calls = set()
        while ok and work:
            f, c, a, K = work.pop()
            if id(c) in seen_calls:
                continue
            seen_calls.add(id(c))
            hi = holder_info(K, c, a)
            if hi is None:
                ok = False
                break
            ini, p_, attr, st_ = hi
            if K.qualname in holders and holders[K.qualname][1:3] != (p_, attr):
                ok = False
                break
            holders[K.qualname] = (ini, p_, attr, st_)
        if not ok:
            continue
        attrs = {h[2] for h in holders.values()}
        # every `<x>.A` in the package: `.field` read, or handed whole to a holder constructor (which is then a holder too)
        changed_again = True
        whole_passes = []
        pending_stores = []
        while ok and changed_again:
            changed_again = False
            whole_passes = []
            pending_stores = []
            for mod in model.modules.values():
                if mod.short.startswith("_typeguard"):
                    continue
                parents = {}
                for p in ast.walk(mod.tree):
                    for ch in ast.iter_child_nodes(p):
                        parents[id(ch)] = p
                for x in ast.walk(mod.tree):
                    if isinstance(x, ast.Attribute) and x.attr in attrs:
                        par = parents.get(id(x))
                        if isinstance(x.ctx, ast.Store):
                            pending_stores.append(x)  # judged once all holders are known
                            continue
                        if isinstance(par, ast.Attribute) and par.value is x and par.attr in fields and isinstance(par.ctx, ast.Load):
                            continue
                        if isinstance(par, (ast.Call, ast.keyword)):
                            call = par if isinstance(par, ast.Call) else parents.get(id(par))
                            scope = None
                            for f in model.functions.values():
                                if f.module is mod and any(y is call for y in ast.walk(f.node)):
                                    if scope is None or any(y is f.node for y in ast.walk(scope.node)):
                                        scope = f
                            if scope is not None and isinstance(call, ast.Call):
                                K_ = class_of_call(scope, call)
                                if K_ is not None:
                                    hi = holder_info(K_, call, x)
                                    if hi is not None:
                                        if K_.qualname not in holders:
                                            holders[K_.qualname] = hi
                                            attrs.add(hi[2])
                                            changed_again = True
                                        whole_passes.append((scope, call, x, K_))
                                        continue
                        ok = False
        if ok and any(not any(x is h[3].targets[0] for h in holders.values()) for x in pending_stores):
            ok = False
        if not ok:
            continue
        # the new attribute names must be free in every holder class
        for q, (ini, p_, attr, st_) in holders.items():
            K = model.classes[q]
            used = {y.attr for meth in K.methods.values() for y in ast.walk(meth.node) if isinstance(y, ast.Attribute)}
            if any(attr_of_field[f_] in used for f_ in fields):
                ok = False
        if not ok:
            continue
        # ---- rewrite
        for q, (ini, p_, attr, st_) in holders.items():
            a_ = ini.node.args
            for lst in (a_.posonlyargs, a_.args, a_.kwonlyargs):
                for i, ar in enumerate(list(lst)):
                    if ar.arg == p_:
                        lst[i:i + 1] = [ast.arg(arg=f_.lstrip("_"), annotation=None) for f_ in fields]
                        if lst is a_.kwonlyargs:
                            a_.kw_defaults[i:i + 1] = [None] * len(fields)
            new_stores = [ast.copy_location(ast.Assign(targets=[ast.Attribute(value=ast.Name(id=ini.params[0], ctx=ast.Load()), attr=attr_of_field[f_], ctx=ast.Store())],
                                                       value=ast.Name(id=f_.lstrip("_"), ctx=ast.Load()), lineno=st_.lineno), st_) for f_ in fields]

            def repl(stmts):
                for i, s_ in enumerate(list(stmts)):
                    if s_ is st_:
                        stmts[i:i + 1] = new_stores
                        return True
                    for fld in ("body", "orelse", "finalbody"):
                        sub = getattr(s_, fld, None)
                        if isinstance(sub, list) and sub and isinstance(sub[0], ast.stmt) and repl(sub):
                            return True
                    for hd in getattr(s_, "handlers", []) or []:
                        if repl(hd.body):
                            return True
                return False

            repl(ini.node.body)
        for f, c, a, K in sites:
            vals = list(a.args)
            if a in c.args:
                i = c.args.index(a)
                c.args[i:i + 1] = vals
            else:
                j = next(j for j, k in enumerate(c.keywords) if k.value is a)
                c.keywords[j:j + 1] = [ast.keyword(arg=f_.lstrip("_"), value=v) for f_, v in zip(fields, vals)]
        for scope, c, x, K in whole_passes:
            vals = [ast.Attribute(value=copy.deepcopy(x.value), attr=attr_of_field[f_], ctx=ast.Load()) for f_ in fields]
            if x in c.args:
                i = c.args.index(x)
                c.args[i:i + 1] = vals
            else:
                j = next(j for j, k in enumerate(c.keywords) if k.value is x)
                c.keywords[j:j + 1] = [ast.keyword(arg=f_.lstrip("_"), value=v) for f_, v in zip(fields, vals)]

        class Tr(ast.NodeTransformer):
            def visit_Attribute(self, n):
                self.generic_visit(n)
                if isinstance(n.value, ast.Attribute) and n.value.attr in attrs and n.attr in fields and isinstance(n.ctx, ast.Load):
                    return ast.copy_location(ast.Attribute(value=n.value.value, attr=attr_of_field[n.attr], ctx=ast.Load()), n)
                return n

        for mod in model.modules.values():
            if mod.short.startswith("_typeguard"):
                continue
            Tr().visit(mod.tree)
            ast.fix_missing_locations(mod.tree)
        done.append(".".join(key))
    return done


# --------------------------------------------------------------------------- canonical spellings
class _CanonNot(ast.NodeTransformer):
    """`not a is None` -> `a is not None`, `not a == b` -> `a != b`, `not a in b` -> `a not in b`, `not not a` (in a test) -> `a`;
    `if not c: A else: B` -> `if c: B else: A` (only with a plain else: an elif chain keeps its order).  The pinned tree contains
    none of these spellings, so the pass is the identity on it."""

    NEG = {ast.Is: ast.IsNot, ast.IsNot: ast.Is, ast.Eq: ast.NotEq, ast.NotEq: ast.Eq, ast.In: ast.NotIn, ast.NotIn: ast.In}

    def __init__(self):
        self.changed = False

    def visit_UnaryOp(self, n):
        self.generic_visit(n)
        if isinstance(n.op, ast.Not) and isinstance(n.operand, ast.Compare) and len(n.operand.ops) == 1 and type(n.operand.ops[0]) in self.NEG:
            self.changed = True
            c = n.operand
            return ast.copy_location(ast.Compare(left=c.left, ops=[self.NEG[type(c.ops[0])]()], comparators=c.comparators), n)
        return n

    def visit_If(self, n):
        self.generic_visit(n)
        t = n.test
        while isinstance(t, ast.UnaryOp) and isinstance(t.op, ast.Not) and isinstance(t.operand, ast.UnaryOp) and isinstance(t.operand.op, ast.Not):
            t = t.operand.operand
            self.changed = True
        n.test = t
        plain_else = bool(n.orelse)  # (`else: if x:` and `elif x:` are the same tree; the pinned tree has no negative test with either)
        if plain_else:
            # a plain if/else is written with the positive test first (the pinned tree has no `if not c: .. else: ..`,
            # no `if a != b: .. else: ..`, no `if a is not b: .. else: ..`)
            pos = None
            if isinstance(t, ast.UnaryOp) and isinstance(t.op, ast.Not):
                pos = t.operand
            elif isinstance(t, ast.Compare) and len(t.ops) == 1 and isinstance(t.ops[0], (ast.NotEq, ast.IsNot, ast.NotIn)):
                pos = ast.copy_location(ast.Compare(left=t.left, ops=[self.NEG[type(t.ops[0])]()], comparators=t.comparators), t)
            elif isinstance(t, ast.BoolOp) and isinstance(t.op, ast.Or) and any(self._negative(v) for v in t.values):
                # De Morgan: `if not a or b: Y else: X` is `if a and not b: X else: Y` (the pinned tree has no or-test with a negated operand and an else)
                pos = ast.copy_location(ast.BoolOp(op=ast.And(), values=[self._positive(v) if self._negative(v) else ast.copy_location(ast.UnaryOp(op=ast.Not(), operand=v), v)
                                                                         for v in t.values]), t)
            elif isinstance(t, ast.BoolOp) and isinstance(t.op, ast.And) and all(self._negative(v) for v in t.values):
                # `if not a and not b: Y else: X` is `if a or b: X else: Y`
                pos = ast.copy_location(ast.BoolOp(op=ast.Or(), values=[self._positive(v) for v in t.values]), t)
            if pos is not None:
                self.changed = True
                return ast.copy_location(ast.If(test=pos, body=n.orelse, orelse=n.body), n)
        return n

    def visit_Assign(self, n):
        self.generic_visit(n)
        # `a, b = True, False` (names on the left, literals on the right) -> one assignment each, in order (the pinned tree has no such tuple assignment)
        if len(n.targets) == 1 and isinstance(n.targets[0], ast.Tuple) and isinstance(n.value, ast.Tuple) and len(n.targets[0].elts) == len(n.value.elts) >= 2 \
                and all(isinstance(t, ast.Name) for t in n.targets[0].elts) and all(isinstance(v, ast.Constant) for v in n.value.elts):
            self.changed = True
            return [ast.copy_location(ast.Assign(targets=[ast.Name(id=t.id, ctx=ast.Store())], value=v), n) for t, v in zip(n.targets[0].elts, n.value.elts)]
        return n

    def visit_Delete(self, n):
        # `del xs[-1]` -> `xs.pop()` (same effect on a list; the pinned tree pops)
        if len(n.targets) == 1 and isinstance(n.targets[0], ast.Subscript):
            sl = n.targets[0].slice
            if isinstance(sl, ast.UnaryOp) and isinstance(sl.op, ast.USub) and isinstance(sl.operand, ast.Constant) and sl.operand.value == 1:
                self.changed = True
                v = n.targets[0].value
                return ast.copy_location(ast.Expr(value=ast.Call(func=ast.Attribute(value=v, attr="pop", ctx=ast.Load()), args=[], keywords=[])), n)
        return n

    def visit_Compare(self, n):
        self.generic_visit(n)
        # `i + 1 == n` -> `i == n - 1` (ints; the pinned tree writes the offset on the right)
        if len(n.ops) == 1 and isinstance(n.ops[0], (ast.Eq, ast.NotEq)) and isinstance(n.left, ast.BinOp) and isinstance(n.left.op, ast.Add) and isinstance(n.left.right, ast.Constant) \
                and type(n.left.right.value) is int and isinstance(n.comparators[0], ast.Call) and isinstance(n.comparators[0].func, ast.Name) and n.comparators[0].func.id == "len":
            self.changed = True
            return ast.copy_location(ast.Compare(left=n.left.left, ops=n.ops, comparators=[ast.BinOp(left=n.comparators[0], op=ast.Sub(), right=n.left.right)]), n)
        # a literal on the left of a symmetric comparison: `"x" == e` -> `e == "x"` (the pinned tree writes the literal on the right)
        if len(n.ops) == 1 and isinstance(n.ops[0], (ast.Eq, ast.NotEq)) and isinstance(n.left, ast.Constant) and not isinstance(n.comparators[0], ast.Constant):
            self.changed = True
            return ast.copy_location(ast.Compare(left=n.comparators[0], ops=n.ops, comparators=[n.left]), n)
        return n

    def visit_Subscript(self, n):
        self.generic_visit(n)
        # `x[0:i]` -> `x[:i]` (the pinned tree has no explicit zero lower bound)
        sl = n.slice
        if isinstance(sl, ast.Slice) and isinstance(sl.lower, ast.Constant) and sl.lower.value == 0 and type(sl.lower.value) is int and sl.step is None:
            self.changed = True
            sl.lower = None
        return n

    def visit_For(self, n):
        self.generic_visit(n)
        # `for i in range(len(xs)): v = xs[i]; ...` -> `for i, v in enumerate(xs): ...` when neither xs, i nor v is re-bound / xs mutated in the body
        it = n.iter
        if isinstance(n.target, ast.Name) and isinstance(it, ast.Call) and isinstance(it.func, ast.Name) and it.func.id == "range" and len(it.args) == 1 and not it.keywords \
                and isinstance(it.args[0], ast.Call) and isinstance(it.args[0].func, ast.Name) and it.args[0].func.id == "len" and len(it.args[0].args) == 1 \
                and isinstance(it.args[0].args[0], ast.Name) and n.body and isinstance(n.body[0], ast.Assign) and len(n.body[0].targets) == 1 and isinstance(n.body[0].targets[0], ast.Name):
            xs, i, first = it.args[0].args[0].id, n.target.id, n.body[0]
            v = first.targets[0].id
            if isinstance(first.value, ast.Subscript) and isinstance(first.value.value, ast.Name) and first.value.value.id == xs and isinstance(first.value.slice, ast.Name) and first.value.slice.id == i and v not in (xs, i):
                rest = n.body[1:]
                rebound = any(isinstance(x, ast.Name) and x.id in (xs, i, v) and isinstance(x.ctx, (ast.Store, ast.Del)) for b_ in rest for x in ast.walk(b_))
                mutated = any(isinstance(x, ast.Call) and isinstance(x.func, ast.Attribute) and isinstance(x.func.value, ast.Name) and x.func.value.id == xs for b_ in rest for x in ast.walk(b_)) or \
                    any(isinstance(x, ast.Subscript) and isinstance(x.ctx, (ast.Store, ast.Del)) and isinstance(x.value, ast.Name) and x.value.id == xs for b_ in rest for x in ast.walk(b_))
                if not rebound and not mutated and rest:
                    self.changed = True
                    n.target = ast.copy_location(ast.Tuple(elts=[ast.Name(id=i, ctx=ast.Store()), ast.Name(id=v, ctx=ast.Store())], ctx=ast.Store()), n.target)
                    n.iter = ast.copy_location(ast.Call(func=ast.Name(id="enumerate", ctx=ast.Load()), args=[ast.Name(id=xs, ctx=ast.Load())], keywords=[]), it)
                    n.body = rest
        return n

    def _negative(self, e) -> bool:
        return (isinstance(e, ast.UnaryOp) and isinstance(e.op, ast.Not)) or (
            isinstance(e, ast.Compare) and len(e.ops) == 1 and isinstance(e.ops[0], (ast.NotEq, ast.IsNot, ast.NotIn)))

    def _positive(self, e):
        if isinstance(e, ast.UnaryOp):
            return e.operand
        return ast.copy_location(ast.Compare(left=e.left, ops=[self.NEG[type(e.ops[0])]()], comparators=e.comparators), e)


def _local_defs_to_lambdas(tree) -> bool:
    """A nested `def g(x): return <expr>` (no decorators, defaults, annotations that matter, docstring) whose name is read exactly once, as a
    value (not called), in the enclosing function -> that one read becomes `lambda x: <expr>` and the def goes.  Only `__name__` differs.
    The pinned tree has no such def (checked: the pass is the identity on it)."""
    changed = False
    for fn in [n for n in ast.walk(tree) if isinstance(n, (ast.FunctionDef, ast.AsyncFunctionDef))]:
        for blk_owner in list(ast.walk(fn)):
            for fld in ("body", "orelse", "finalbody"):
                blk = getattr(blk_owner, fld, None)
                if not isinstance(blk, list):
                    continue
                for d in list(blk):
                    if not (isinstance(d, ast.FunctionDef) and d is not fn and not d.decorator_list and len(d.body) == 1 and isinstance(d.body[0], ast.Return) and d.body[0].value is not None):
                        continue
                    a = d.args
                    if a.defaults or a.kw_defaults or a.vararg or a.kwarg or a.kwonlyargs or a.posonlyargs:
                        continue
                    refs = [n for n in ast.walk(fn) if isinstance(n, ast.Name) and n.id == d.name]
                    if len(refs) != 1 or not isinstance(refs[0].ctx, ast.Load):
                        continue
                    # the name has this one binding only (no second def of the same name on another branch, no parameter of that name)
                    if sum(1 for n in ast.walk(fn) if isinstance(n, (ast.FunctionDef, ast.AsyncFunctionDef, ast.ClassDef)) and n.name == d.name) != 1 or \
                            any(isinstance(n, ast.arg) and n.arg == d.name for n in ast.walk(fn)):
                        continue
                    parents = {}
                    for p_ in ast.walk(fn):
                        for c_ in ast.iter_child_nodes(p_):
                            parents[id(c_)] = p_
                    par = parents.get(id(refs[0]))
                    if isinstance(par, ast.Call) and par.func is refs[0]:
                        continue  # called directly: leave it to the inliner
                    if any(isinstance(n, (ast.Yield, ast.YieldFrom, ast.Await)) for n in ast.walk(d)):
                        continue
                    lam = ast.copy_location(ast.Lambda(args=ast.arguments(posonlyargs=[], args=[ast.arg(arg=x.arg) for x in a.args], kwonlyargs=[], kw_defaults=[], defaults=[]), body=d.body[0].value), refs[0])
                    for f_, v_ in ast.iter_fields(par):
                        if v_ is refs[0]:
                            setattr(par, f_, lam)
                        elif isinstance(v_, list):
                            for i_, x_ in enumerate(v_):
                                if x_ is refs[0]:
                                    v_[i_] = lam
                    blk.remove(d)
                    if not blk:
                        blk.append(ast.copy_location(ast.Pass(), d))
                    changed = True
    if changed:
        ast.fix_missing_locations(tree)
    return changed


def canonical_spellings(model) -> bool:
    changed = False
    for mod in model.modules.values():
        if mod.short.startswith("_typeguard"):
            continue
        if _local_defs_to_lambdas(mod.tree):
            changed = True
        tr = _CanonNot()
        tr.visit(mod.tree)
        if tr.changed:
            ast.fix_missing_locations(mod.tree)
            changed = True
    return changed


def collapse_return_temps(model, changed: set) -> bool:
    """`tmp = <expr>; return tmp` (the temporary bound once and read only by that return) -> `return <expr>`, in functions whose
    source differs from the pinned tree."""
    any_change = False
    for q in sorted(changed):
        f = model.functions.get(q)
        if f is None or f.module.short.startswith("_typeguard") or not isinstance(f.node, (ast.FunctionDef, ast.AsyncFunctionDef)):
            continue
        loads, stores, pairs = {}, {}, {}
        for x in ast.walk(f.node):
            if isinstance(x, ast.Name):
                (loads if isinstance(x.ctx, ast.Load) else stores).setdefault(x.id, []).append(x)
        for x in ast.walk(f.node):
            for fld in ("body", "orelse", "finalbody"):
                sub = getattr(x, fld, None)
                if isinstance(sub, list):
                    for a_, b_ in zip(sub, sub[1:]):
                        if isinstance(a_, ast.Assign) and len(a_.targets) == 1 and isinstance(a_.targets[0], ast.Name) and isinstance(b_, ast.Return) \
                                and isinstance(b_.value, ast.Name) and b_.value.id == a_.targets[0].id:
                            pairs[a_.targets[0].id] = pairs.get(a_.targets[0].id, 0) + 1
        # a temporary used for nothing but "bind, then return it" (possibly at several returns)
        temps = {nm for nm, k in pairs.items() if len(loads.get(nm, [])) == k and len(stores.get(nm, [])) == k and nm not in f.params}

        def rec(stmts):
            ch = False
            i = 0
            while i + 1 < len(stmts):
                a, b = stmts[i], stmts[i + 1]
                if isinstance(a, ast.Assign) and len(a.targets) == 1 and isinstance(a.targets[0], ast.Name) and isinstance(b, ast.Return) \
                        and isinstance(b.value, ast.Name) and b.value.id == a.targets[0].id and a.targets[0].id in temps:
                    b.value = a.value
                    del stmts[i]
                    ch = True
                    continue
                i += 1
            for st in stmts:
                if isinstance(st, (ast.FunctionDef, ast.AsyncFunctionDef, ast.ClassDef)):
                    continue
                for fld in ("body", "orelse", "finalbody"):
                    sub = getattr(st, fld, None)
                    if isinstance(sub, list) and sub and isinstance(sub[0], ast.stmt):
                        ch |= rec(sub)
                for hd in getattr(st, "handlers", []) or []:
                    ch |= rec(hd.body)
            return ch

        if rec(f.node.body):
            ast.fix_missing_locations(f.node)
            any_change = True
    return any_change


def collapse_test_temps(model, changed: set) -> bool:
    """Two spellings of one test, in functions whose source differs from the pinned tree:
      `t = <expr>` immediately followed by `if t:` / `if not t:` / `if t and ...:` (t bound once, read once) -> the expression in the test;
      `if a: if b: X` (neither `if` has an else, the inner one is the only statement) -> `if a and b: X`."""
    any_change = False
    for q in sorted(changed):
        f = model.functions.get(q)
        if f is None or f.module.short.startswith("_typeguard") or not isinstance(f.node, (ast.FunctionDef, ast.AsyncFunctionDef)):
            continue
        loads, stores = {}, {}
        for x in ast.walk(f.node):
            if isinstance(x, ast.Name):
                (loads if isinstance(x.ctx, ast.Load) else stores).setdefault(x.id, []).append(x)
        try:
            from .inventory import GUARD_PAIRS
        except ImportError:
            GUARD_PAIRS = {}
        pinned_pairs = {tuple(p_) for p_ in GUARD_PAIRS.get(q, ())}

        def head_slot(test):
            """(holder, field/index) of the expression evaluated first by the test"""
            if isinstance(test, ast.Name):
                return ("self", None)
            if isinstance(test, ast.UnaryOp) and isinstance(test.op, ast.Not) and isinstance(test.operand, ast.Name):
                return (test, "operand")
            if isinstance(test, ast.BoolOp):
                v = test.values[0]
                if isinstance(v, ast.Name):
                    return (test, 0)
                if isinstance(v, ast.UnaryOp) and isinstance(v.op, ast.Not) and isinstance(v.operand, ast.Name):
                    return (v, "operand")
            return None

        def rec(stmts):
            ch = False
            i = 0
            while i + 1 < len(stmts):
                a, b = stmts[i], stmts[i + 1]
                if isinstance(a, ast.Assign) and len(a.targets) == 1 and isinstance(a.targets[0], ast.Name) and isinstance(b, (ast.If, ast.While)) and isinstance(b, ast.If):
                    nm = a.targets[0].id
                    slot = head_slot(b.test)
                    if slot and nm not in f.params and len(loads.get(nm, [])) == 1 and len(stores.get(nm, [])) == 1:
                        holder, key = slot
                        cur = b.test if holder == "self" else (holder.values[key] if isinstance(key, int) else getattr(holder, key))
                        if isinstance(cur, ast.Name) and cur.id == nm:
                            if holder == "self":
                                b.test = a.value
                            elif isinstance(key, int):
                                holder.values[key] = a.value
                            else:
                                setattr(holder, key, a.value)
                            del stmts[i]
                            ch = True
                            continue
                i += 1
            for st in stmts:
                if isinstance(st, (ast.FunctionDef, ast.AsyncFunctionDef, ast.ClassDef)):
                    continue
                for fld in ("body", "orelse", "finalbody"):
                    sub = getattr(st, fld, None)
                    if isinstance(sub, list) and sub and isinstance(sub[0], ast.stmt):
                        ch |= rec(sub)
                for hd in getattr(st, "handlers", []) or []:
                    ch |= rec(hd.body)
            # consecutive guard clauses with the same leaving body: one disjunction (`if a: return X` + `if b: return X` -> `if a or b: return X`),
            # except the pairs the pinned function itself writes that way
            i = 0
            while i + 1 < len(stmts):
                a, b = stmts[i], stmts[i + 1]
                if isinstance(a, ast.If) and isinstance(b, ast.If) and not a.orelse and not b.orelse and a.body \
                        and isinstance(a.body[-1], (ast.Return, ast.Raise, ast.Continue, ast.Break)) \
                        and [ast.dump(x) for x in a.body] == [ast.dump(x) for x in b.body] \
                        and (ast.unparse(a.test), ast.unparse(b.test)) not in pinned_pairs \
                        and not any(isinstance(y, (ast.NamedExpr, ast.Yield, ast.Await)) for y in ast.walk(a.test)) and not any(isinstance(y, (ast.NamedExpr, ast.Yield, ast.Await)) for y in ast.walk(b.test)):
                    va = a.test.values if isinstance(a.test, ast.BoolOp) and isinstance(a.test.op, ast.Or) else [a.test]
                    vb = b.test.values if isinstance(b.test, ast.BoolOp) and isinstance(b.test.op, ast.Or) else [b.test]
                    a.test = ast.copy_location(ast.BoolOp(op=ast.Or(), values=list(va) + list(vb)), a.test)
                    del stmts[i + 1]
                    ch = True
                    continue
                i += 1
            # nested ifs without else: one conjunction (after the bodies were visited: innermost first)
            for st in stmts:
                while isinstance(st, ast.If) and not st.orelse and len(st.body) == 1 and isinstance(st.body[0], ast.If) and not st.body[0].orelse:
                    inner = st.body[0]
                    vals = (st.test.values if isinstance(st.test, ast.BoolOp) and isinstance(st.test.op, ast.And) else [st.test]) + \
                           (inner.test.values if isinstance(inner.test, ast.BoolOp) and isinstance(inner.test.op, ast.And) else [inner.test])
                    st.test = ast.BoolOp(op=ast.And(), values=list(vals))
                    st.body = inner.body
                    ch = True
            return ch

        if rec(f.node.body):
            ast.fix_missing_locations(f.node)
            any_change = True
    return any_change


# --------------------------------------------------------------------------- local builder objects
def scalarise_local_objects(model, module_names: dict, only: set) -> list:
    """`r = C(a)` ... `r.x = v` ... `f"{r.what} {r.x}"` with C a *new* plain class whose `__init__` only stores expressions of its
    parameters into `self.<attr>`, where the local `r` is bound once and only ever appears as `r.<data attribute>` (its methods have
    been inlined, it is never handed on, compared, returned or captured): the object is replaced by one local per attribute
    (`r__what = a`, `r__x = v`).  Scalar replacement of a non-escaping aggregate: no aliasing is possible, the class has no
    `__setattr__` / `__getattr__` / properties / `__slots__`, so every `r.x` means the value last stored there.
    Only in the functions named in `only` (those that received inlined code or differ from the pinned tree)."""
    done = []
    for q in sorted(only):
        f = model.functions.get(q)
        if f is None or f.module.short.startswith("_typeguard") or not isinstance(f.node, (ast.FunctionDef, ast.AsyncFunctionDef)):
            continue
        fn = f.node
        idents = {n.id for n in ast.walk(fn) if isinstance(n, ast.Name)} | {a.arg for a in ast.walk(fn) if isinstance(a, ast.arg)}
        # candidate locals: `r = C(..)` statements
        cands = {}
        for st in _walk_own(fn):
            if isinstance(st, ast.Assign) and len(st.targets) == 1 and isinstance(st.targets[0], ast.Name) and isinstance(st.value, ast.Call) \
                    and isinstance(st.value.func, ast.Name):
                cands.setdefault(st.targets[0].id, []).append(st)
        for r_, sts in sorted(cands.items()):
            if r_ in f.params:
                continue
            b = model.resolve_name(f, sts[0].value.func.id)
            if b.kind != "class":
                continue
            K = b.target
            if K.module.short.startswith("_typeguard") or K.name in module_names.get(K.module.short, set()):
                continue
            if any(model.resolve_name(f, s_.value.func.id).kind != "class" or model.resolve_name(f, s_.value.func.id).target is not K for s_ in sts):
                continue
            kn = K.node
            if kn.keywords or kn.decorator_list or any(ast.unparse(b_) != "object" for b_ in kn.bases):
                continue
            cbody = _strip_doc(list(kn.body))
            methods = {x.name: x for x in cbody if isinstance(x, ast.FunctionDef)}
            class_attrs = {}
            ok = True
            for x in cbody:
                if isinstance(x, ast.FunctionDef):
                    if x.decorator_list or x.name in ("__setattr__", "__getattr__", "__getattribute__", "__delattr__", "__del__", "__set_name__", "__init_subclass__", "__new__"):
                        ok = False
                elif isinstance(x, ast.Assign) and len(x.targets) == 1 and isinstance(x.targets[0], ast.Name) and isinstance(x.value, ast.Constant) and x.targets[0].id != "__slots__":
                    class_attrs[x.targets[0].id] = x.value
                elif isinstance(x, ast.AnnAssign) and isinstance(x.target, ast.Name) and (x.value is None or isinstance(x.value, ast.Constant)):
                    if x.value is not None:
                        class_attrs[x.target.id] = x.value
                elif isinstance(x, ast.Pass):
                    pass
                else:
                    ok = False
            if not ok:
                continue
            # subclasses could override: the class must not be subclassed in the package
            if any(K.name in [ast.unparse(b_).split(".")[-1] for b_ in c2.node.bases] for c2 in model.classes.values() if c2 is not K):
                continue
            ini = methods.get("__init__")
            init_stores = []  # (attr, expr)
            iparams, idefaults = [], {}
            if ini is not None:
                a = ini.args
                if a.vararg or a.kwarg or a.posonlyargs and False:
                    continue
                allp = [x.arg for x in a.posonlyargs + a.args]
                if not allp:
                    continue
                selfn = allp[0]
                iparams = allp[1:] + [x.arg for x in a.kwonlyargs]
                pos_defaults = a.defaults
                for p_, d_ in zip(reversed(allp), reversed(pos_defaults)):
                    idefaults[p_] = d_
                for p_, d_ in zip(a.kwonlyargs, a.kw_defaults):
                    if d_ is not None:
                        idefaults[p_.arg] = d_
                if not all(isinstance(d_, ast.Constant) for d_ in idefaults.values()):
                    continue
                for x in _strip_doc(list(ini.body)):
                    if isinstance(x, ast.Assign) and len(x.targets) == 1 and isinstance(x.targets[0], ast.Attribute) and isinstance(x.targets[0].value, ast.Name) \
                            and x.targets[0].value.id == selfn and not any(isinstance(y, ast.Name) and y.id == selfn for y in ast.walk(x.value)) \
                            and not any(isinstance(y, (ast.Call, ast.Lambda, ast.Yield, ast.Await, ast.NamedExpr, ast.ListComp, ast.DictComp, ast.SetComp, ast.GeneratorExp)) for y in ast.walk(x.value)) \
                            and all(y.id in iparams for y in ast.walk(x.value) if isinstance(y, ast.Name)):
                        init_stores.append((x.targets[0].attr, x.value))
                    elif isinstance(x, ast.Pass):
                        pass
                    else:
                        ok = False
                if not ok:
                    continue
            # every occurrence of r in the function (nested scopes included)
            parents = {}
            for p in ast.walk(fn):
                for c in ast.iter_child_nodes(p):
                    parents[id(c)] = p
            occ = [n for n in ast.walk(fn) if isinstance(n, ast.Name) and n.id == r_]
            def_targets = {id(s_.targets[0]) for s_ in sts}
            own = {id(n) for st in _walk_own(fn) for n in ast.walk(st)} if False else None
            attrs_used = set()
            for n in occ:
                if id(n) in def_targets:
                    continue
                p = parents.get(id(n))
                if not (isinstance(p, ast.Attribute) and p.value is n and not isinstance(p.ctx, ast.Del)):
                    ok = False
                    break
                if p.attr in methods or p.attr.startswith("__"):
                    ok = False
                    break
                attrs_used.add(p.attr)
            if not ok:
                continue
            # r must belong to fn's own scope only (no nested function / lambda / comprehension mentions it)
            nested_mention = False
            for x in ast.walk(fn):
                if x is not fn and isinstance(x, (ast.FunctionDef, ast.AsyncFunctionDef, ast.Lambda, ast.ListComp, ast.SetComp, ast.DictComp, ast.GeneratorExp, ast.ClassDef)):
                    if any(isinstance(y, ast.Name) and y.id == r_ for y in ast.walk(x)):
                        nested_mention = True
            if nested_mention:
                continue
            known_attrs = set(class_attrs) | {a_ for a_, _ in init_stores}
            stored_attrs = {parents[id(n)].attr for n in occ if id(n) not in def_targets and isinstance(parents[id(n)].ctx, ast.Store)}
            if not attrs_used <= (known_attrs | stored_attrs):
                continue
            new_names = {a_: f"{r_}__{a_}" for a_ in known_attrs | attrs_used}
            if any(v in idents for v in new_names.values()):
                continue
            # bind the constructor arguments
            replaced = True
            for s_ in sts:
                call = s_.value
                if any(isinstance(a_, ast.Starred) for a_ in call.args) or any(k.arg is None for k in call.keywords):
                    replaced = False
                    break
                bound = {}
                posn = [x.arg for x in (ini.args.posonlyargs + ini.args.args)][1:] if ini is not None else []
                if len(call.args) > len(posn):
                    replaced = False
                    break
                for p_, a_ in zip(posn, call.args):
                    bound[p_] = a_
                for k in call.keywords:
                    if k.arg in bound or k.arg not in iparams:
                        replaced = False
                        break
                    bound[k.arg] = k.value
                if not replaced:
                    break
                for p_ in iparams:
                    if p_ not in bound:
                        if p_ in idefaults:
                            bound[p_] = idefaults[p_]
                        else:
                            replaced = False
                if not replaced:
                    break
                s_._scalar_bound = bound
            if not replaced:
                continue
            # rewrite
            def build(s_):
                out = []
                bound = s_._scalar_bound
                subst = {}
                for p_ in iparams:
                    a_ = bound[p_]
                    nuse = sum(1 for _, e in init_stores for y in ast.walk(e) if isinstance(y, ast.Name) and y.id == p_)
                    if isinstance(a_, (ast.Constant, ast.Name)) or nuse == 1 and [p2 for p2 in iparams if not isinstance(bound[p2], (ast.Constant, ast.Name))] == [p_]:
                        subst[p_] = a_
                    else:
                        tmpn = f"{r_}__arg_{p_}"
                        out.append(ast.copy_location(ast.Assign(targets=[ast.Name(id=tmpn, ctx=ast.Store())], value=a_, lineno=s_.lineno), s_))
                        subst[p_] = ast.Name(id=tmpn, ctx=ast.Load())
                for a_, v in class_attrs.items():
                    if a_ in new_names:
                        out.append(ast.copy_location(ast.Assign(targets=[ast.Name(id=new_names[a_], ctx=ast.Store())], value=copy.deepcopy(v), lineno=s_.lineno), s_))
                for a_, e in init_stores:
                    e2 = _SubstLoads(subst).visit(copy.deepcopy(e))
                    out.append(ast.copy_location(ast.Assign(targets=[ast.Name(id=new_names[a_], ctx=ast.Store())], value=e2, lineno=s_.lineno), s_))
                return out or [ast.copy_location(ast.Pass(), s_)]

            def rec(stmts):
                i = 0
                while i < len(stmts):
                    st = stmts[i]
                    if any(st is s_ for s_ in sts):
                        new = build(st)
                        stmts[i:i + 1] = new
                        i += len(new)
                        continue
                    if not isinstance(st, (ast.FunctionDef, ast.AsyncFunctionDef, ast.ClassDef)):
                        for fld in ("body", "orelse", "finalbody"):
                            sub = getattr(st, fld, None)
                            if isinstance(sub, list) and sub and isinstance(sub[0], ast.stmt):
                                rec(sub)
                        for hd in getattr(st, "handlers", []) or []:
                            rec(hd.body)
                        for cs in getattr(st, "cases", []) or []:
                            rec(cs.body)
                    i += 1

            rec(fn.body)

            class _R(ast.NodeTransformer):
                def visit_Attribute(self, n):
                    self.generic_visit(n)
                    if isinstance(n.value, ast.Name) and n.value.id == r_ and n.attr in new_names:
                        return ast.copy_location(ast.Name(id=new_names[n.attr], ctx=n.ctx), n)
                    return n

            _R().visit(fn)
            ast.fix_missing_locations(fn)
            done.append((q, r_, K.name))
    return done


# --------------------------------------------------------------------------- module-level name tables
def desugar_module_name_tables(model, module_names: dict) -> list:
    """`_table = (("Bool", bools), ("Int", ints), ..)` + `for name, dts in _table: globals()[name] = make(dts, name)` at module level
    -> `Bool = make(bools, "Bool")`, `Int = make(ints, "Int")`, .. in table order.  `globals()[k] = v` in a module body *is* the
    assignment `k = v`; the table must be a new module-level literal of rows whose key element is a string literal naming an
    identifier, and a non-literal row element may be used at most once per iteration (it is evaluated once, as before)."""
    done = []
    for mod in model.modules.values():
        if mod.short.startswith("_typeguard"):
            continue
        known = module_names.get(mod.short, set())
        body = mod.tree.body
        i = 0
        while i < len(body):
            st = body[i]
            i += 1
            if not (isinstance(st, ast.For) and not st.orelse):
                continue
            tbl = st.iter
            tname = None
            if isinstance(tbl, ast.Name):
                tname = tbl.id
                if tname in known:
                    continue
                defs = [x for x in body if isinstance(x, ast.Assign) and any(isinstance(t, ast.Name) and t.id == tname for t in x.targets)]
                if len(defs) != 1 or body.index(defs[0]) > body.index(st):
                    continue
                between = body[body.index(defs[0]) + 1:body.index(st)]
                if any(isinstance(y, ast.Name) and y.id == tname for x in between for y in ast.walk(x)):
                    continue  # the table may have been changed before the loop ran
                tbl = defs[0].value
            if not isinstance(tbl, (ast.Tuple, ast.List)) or not tbl.elts or len(tbl.elts) > 128:
                continue
            tg = st.target
            tnames = [tg.id] if isinstance(tg, ast.Name) else [e.id for e in tg.elts] if isinstance(tg, (ast.Tuple, ast.List)) and all(isinstance(e, ast.Name) for e in tg.elts) else None
            if not tnames:
                continue
            rows = []
            ok = True
            for r_ in tbl.elts:
                if isinstance(tg, ast.Name):
                    rows.append([r_])
                elif isinstance(r_, (ast.Tuple, ast.List)) and len(r_.elts) == len(tnames) and not any(isinstance(e, ast.Starred) for e in r_.elts):
                    rows.append(list(r_.elts))
                else:
                    ok = False
            if not ok:
                continue
            # body: only `globals()[<tname>] = <expr>`
            stores = []
            for b in st.body:
                if isinstance(b, ast.Assign) and len(b.targets) == 1 and isinstance(b.targets[0], ast.Subscript) and isinstance(b.targets[0].value, ast.Call) \
                        and isinstance(b.targets[0].value.func, ast.Name) and b.targets[0].value.func.id == "globals" and not b.targets[0].value.args \
                        and isinstance(b.targets[0].slice, ast.Name) and b.targets[0].slice.id in tnames:
                    stores.append((b.targets[0].slice.id, b.value, b))
                else:
                    ok = False
            if not ok or not stores:
                continue
            new = []
            for row in rows:
                env = dict(zip(tnames, row))
                for key, val, b in stores:
                    k = env[key]
                    if not (isinstance(k, ast.Constant) and isinstance(k.value, str) and k.value.isidentifier()):
                        ok = False
                        break
                    for tn in tnames:
                        if not isinstance(env[tn], (ast.Constant, ast.Name)):
                            uses = sum(1 for _, v2, _ in stores for y in ast.walk(v2) if isinstance(y, ast.Name) and y.id == tn)
                            if uses > 1:
                                ok = False
                    if not ok:
                        break
                    v = _SubstLoads(env).visit(copy.deepcopy(val))
                    new.append(ast.copy_location(ast.Assign(targets=[ast.Name(id=k.value, ctx=ast.Store())], value=v, lineno=st.lineno), st))
                if not ok:
                    break
            if not ok:
                continue
            j = body.index(st)
            body[j:j + 1] = new
            i = j + len(new)
            # `del <loop targets>` right after the loop
            if i < len(body) and isinstance(body[i], ast.Delete) and all(isinstance(t, ast.Name) and t.id in tnames for t in body[i].targets):
                del body[i]
            ast.fix_missing_locations(mod.tree)
            done.append((mod.short, tname or "<literal>", len(rows)))
    return done


# --------------------------------------------------------------------------- new single-use temporaries
def _eval_order(node):
    """sub-expressions of a statement header in (approximate) evaluation order"""
    if isinstance(node, (ast.Assign, ast.AnnAssign, ast.AugAssign)):
        if getattr(node, "value", None) is not None:
            yield from _eval_order(node.value)
        for t in (node.targets if isinstance(node, ast.Assign) else [node.target]):
            yield from _eval_order(t)
        return
    if isinstance(node, (ast.Lambda, ast.FunctionDef, ast.AsyncFunctionDef, ast.ClassDef)):
        yield node
        return
    yield node
    for c in ast.iter_child_nodes(node):
        yield from _eval_order(c)


def forward_substitute_new_temps(model, changed: set, pinned_locals: dict) -> list:
    """`tmp = E` immediately followed by a statement that reads `tmp` exactly once, where `tmp` is a local the pinned function does
    not have, bound once and read once in the whole function: E is written where `tmp` is read (only when nothing that could run user
    code is evaluated before that position in the statement, so the order of effects is kept).  The linter-style "introduce a
    temporary" edit undone; only in functions whose source differs from the pinned tree."""
    done = []
    for q in sorted(changed):
        f = model.functions.get(q)
        if f is None or f.module.short.startswith("_typeguard") or not isinstance(f.node, (ast.FunctionDef, ast.AsyncFunctionDef)):
            continue
        pinned = set(pinned_locals.get(q, ()))
        for _ in range(8):
            loads, stores = {}, {}
            for x in ast.walk(f.node):
                if isinstance(x, ast.Name):
                    (loads if isinstance(x.ctx, ast.Load) else stores).setdefault(x.id, []).append(x)
            nested_names = set()
            for x in ast.walk(f.node):
                if x is not f.node and isinstance(x, (ast.FunctionDef, ast.AsyncFunctionDef, ast.Lambda, ast.ListComp, ast.SetComp, ast.DictComp, ast.GeneratorExp, ast.ClassDef)):
                    nested_names |= {y.id for y in ast.walk(x) if isinstance(y, ast.Name)}

            def header_of(st):
                if isinstance(st, (ast.Return, ast.Assign, ast.AnnAssign, ast.AugAssign, ast.Expr, ast.Raise, ast.Assert, ast.Delete)):
                    return [st]
                if isinstance(st, ast.If):
                    return [st.test]
                if isinstance(st, (ast.For, ast.AsyncFor)):
                    return [st.iter]
                if isinstance(st, (ast.With, ast.AsyncWith)):
                    return [st.items[0].context_expr] if st.items else []
                return []

            def try_pair(a, b):
                if not (isinstance(a, ast.Assign) and len(a.targets) == 1 and isinstance(a.targets[0], ast.Name)):
                    return False
                nm = a.targets[0].id
                if nm in pinned or nm in f.params or nm in nested_names or nm.startswith("__") or len(stores.get(nm, [])) != 1 or len(loads.get(nm, [])) != 1:
                    return False
                if isinstance(a.value, (ast.Yield, ast.YieldFrom, ast.Await, ast.Lambda)) or any(isinstance(y, (ast.Yield, ast.YieldFrom, ast.Await, ast.NamedExpr)) for y in ast.walk(a.value)):
                    return False
                use = loads[nm][0]
                for h in header_of(b):
                    order = list(_eval_order(h))
                    if not any(x is use for x in order):
                        continue
                    # nothing that can run code before the use
                    for x in order:
                        if x is use:
                            break
                        if isinstance(x, (ast.Call, ast.Await, ast.Yield, ast.YieldFrom, ast.NamedExpr, ast.Subscript, ast.BinOp, ast.Compare, ast.JoinedStr, ast.IfExp, ast.BoolOp,
                                          ast.ListComp, ast.SetComp, ast.DictComp, ast.GeneratorExp)):
                            # the enclosing node of the use itself comes first in a pre-order walk: ignore ancestors of the use
                            if any(y is use for y in ast.walk(x)):
                                continue
                            return False
                    # a use under a short-circuit / conditional operand other than the first is not always evaluated
                    parents = {}
                    for p_ in ast.walk(h):
                        for c_ in ast.iter_child_nodes(p_):
                            parents[id(c_)] = p_
                    n_ = use
                    while id(n_) in parents:
                        p_ = parents[id(n_)]
                        if isinstance(p_, ast.BoolOp) and p_.values[0] is not n_:
                            return False
                        if isinstance(p_, ast.IfExp) and p_.test is not n_:
                            return False
                        if isinstance(p_, (ast.Lambda, ast.ListComp, ast.SetComp, ast.DictComp, ast.GeneratorExp)):
                            return False
                        if isinstance(p_, ast.Compare) and p_.left is not n_ and p_.comparators[0] is not n_:
                            return False
                        n_ = p_
                    # substitute
                    class _S(ast.NodeTransformer):
                        def visit_Name(self, n):
                            return ast.copy_location(a.value, n) if n is use else n
                    if h is b:
                        _S().visit(b)
                    elif isinstance(b, ast.If):
                        b.test = _S().visit(b.test)
                    elif isinstance(b, (ast.For, ast.AsyncFor)):
                        b.iter = _S().visit(b.iter)
                    else:
                        b.items[0].context_expr = _S().visit(b.items[0].context_expr)
                    return True
                return False

            def rec(stmts):
                i = 0
                while i + 1 < len(stmts):
                    if try_pair(stmts[i], stmts[i + 1]):
                        done.append((q, stmts[i].targets[0].id))
                        del stmts[i]
                        return True
                    i += 1
                for st in stmts:
                    if isinstance(st, (ast.FunctionDef, ast.AsyncFunctionDef, ast.ClassDef)):
                        continue
                    for fld in ("body", "orelse", "finalbody"):
                        sub = getattr(st, fld, None)
                        if isinstance(sub, list) and sub and isinstance(sub[0], ast.stmt) and rec(sub):
                            return True
                    for hd in getattr(st, "handlers", []) or []:
                        if rec(hd.body):
                            return True
                return False

            if not rec(f.node.body):
                break
            ast.fix_missing_locations(f.node)
    return done


# --------------------------------------------------------------------------- duplicate unpackings of one tuple
def unify_duplicate_unpackings(model, only: set) -> list:
    """`a, b, c, d = T` ... `a2, _, c2, _ = T` (T a local bound once, the first statement earlier in an enclosing block, every name
    involved bound exactly once): the second statement gives second names to the same objects.  They are renamed to the first ones and
    the second statement is dropped (slots the first statement left unnamed get the second's name there).  Arises when a context
    manager that unpacked the memos in `__enter__` is dissolved into a user that unpacks them again."""
    done = []
    for q in sorted(only):
        f = model.functions.get(q)
        if f is None or f.module.short.startswith("_typeguard") or not isinstance(f.node, (ast.FunctionDef, ast.AsyncFunctionDef)):
            continue
        # `a = b = <expr>` with both names bound only here: two names for one object -> one name
        stores0 = {}
        for x in ast.walk(f.node):
            if isinstance(x, ast.Name) and isinstance(x.ctx, (ast.Store, ast.Del)):
                stores0[x.id] = stores0.get(x.id, 0) + 1
            elif isinstance(x, (ast.FunctionDef, ast.AsyncFunctionDef, ast.ClassDef)) and x is not f.node:
                stores0[x.name] = stores0.get(x.name, 0) + 1  # `def name` binds the name as well
            elif isinstance(x, ast.ExceptHandler) and x.name:
                stores0[x.name] = stores0.get(x.name, 0) + 1
            elif isinstance(x, ast.alias):
                nm_ = (x.asname or x.name).split(".")[0]
                stores0[nm_] = stores0.get(nm_, 0) + 1
        for st in list(_walk_own(f.node)):
            if isinstance(st, ast.Assign) and len(st.targets) >= 2 and all(isinstance(t, ast.Name) and stores0.get(t.id) == 1 and t.id not in f.params for t in st.targets):
                keep = st.targets[0].id
                others = {t.id for t in st.targets[1:]}
                if any(isinstance(x, (ast.FunctionDef, ast.AsyncFunctionDef, ast.Lambda)) and x is not f.node and any(isinstance(y, ast.Name) and y.id in others for y in ast.walk(x))
                       for x in ast.walk(f.node)):
                    continue
                for x in ast.walk(f.node):
                    if isinstance(x, ast.Name) and x.id in others:
                        x.id = keep
                st.targets = st.targets[:1]
                done.append((q, keep))
        # `a, b, c, d = T` directly followed by `g(a, b, c, d)` (the names used for nothing else): `g(*T)`
        def restar(stmts):
            ch_ = False
            i = 0
            while i + 1 < len(stmts):
                a_, b_ = stmts[i], stmts[i + 1]
                if isinstance(a_, ast.Assign) and len(a_.targets) == 1 and isinstance(a_.targets[0], (ast.Tuple, ast.List)) and isinstance(a_.value, ast.Name) \
                        and all(isinstance(e, ast.Name) for e in a_.targets[0].elts) and isinstance(b_, ast.Expr) and isinstance(b_.value, ast.Call) and not b_.value.keywords \
                        and [norm_dotted(x) if isinstance(x, ast.Name) else None for x in b_.value.args] == [e.id for e in a_.targets[0].elts]:
                    names_ = [e.id for e in a_.targets[0].elts]
                    uses_ = [x for x in ast.walk(f.node) if isinstance(x, ast.Name) and x.id in names_]
                    if len(uses_) == 2 * len(names_) and len(set(names_)) == len(names_):
                        b_.value.args = [ast.Starred(value=ast.Name(id=a_.value.id, ctx=ast.Load()), ctx=ast.Load())]
                        del stmts[i]
                        ch_ = True
                        continue
                i += 1
            for st in stmts:
                if isinstance(st, (ast.FunctionDef, ast.AsyncFunctionDef, ast.ClassDef)):
                    continue
                for fld in ("body", "orelse", "finalbody"):
                    sub = getattr(st, fld, None)
                    if isinstance(sub, list) and sub and isinstance(sub[0], ast.stmt):
                        ch_ |= restar(sub)
                for hd in getattr(st, "handlers", []) or []:
                    ch_ |= restar(hd.body)
            return ch_

        if restar(f.node.body):
            ast.fix_missing_locations(f.node)
            done.append((q, "*"))
        for _ in range(4):
            stores = {}
            for x in ast.walk(f.node):
                if isinstance(x, ast.Name) and isinstance(x.ctx, (ast.Store, ast.Del)):
                    stores[x.id] = stores.get(x.id, 0) + 1
            found = None

            def is_unpack(st):
                return isinstance(st, ast.Assign) and len(st.targets) == 1 and isinstance(st.targets[0], (ast.Tuple, ast.List)) and isinstance(st.value, ast.Name) \
                    and all(isinstance(e, ast.Name) for e in st.targets[0].elts) and stores.get(st.value.id, 0) == 1 and st.value.id not in f.params

            def rec(stmts, visible):
                nonlocal found
                vis = list(visible)
                for st in stmts:
                    if found:
                        return
                    if is_unpack(st):
                        for first in vis:
                            if first.value.id == st.value.id and len(first.targets[0].elts) == len(st.targets[0].elts):
                                found = (first, st, stmts)
                                return
                        vis.append(st)
                    if isinstance(st, (ast.FunctionDef, ast.AsyncFunctionDef, ast.ClassDef)):
                        continue
                    for fld in ("body", "orelse", "finalbody"):
                        sub = getattr(st, fld, None)
                        if isinstance(sub, list) and sub and isinstance(sub[0], ast.stmt):
                            rec(sub, vis)
                    for hd in getattr(st, "handlers", []) or []:
                        rec(hd.body, vis)

            rec(f.node.body, [])
            if not found:
                break
            first, second, holder = found
            ren = {}
            ok = True
            for e1, e2 in zip(first.targets[0].elts, second.targets[0].elts):
                if e2.id == "_":
                    continue
                if e1.id == "_":
                    if stores.get(e2.id, 0) != 1:
                        ok = False
                    continue
                if e1.id == e2.id:
                    continue
                if stores.get(e1.id, 0) != 1 or stores.get(e2.id, 0) != 1:
                    ok = False
                ren[e2.id] = e1.id
            nested = any(isinstance(x, (ast.FunctionDef, ast.AsyncFunctionDef, ast.Lambda)) and x is not f.node and any(isinstance(y, ast.Name) and y.id in ren for y in ast.walk(x))
                         for x in ast.walk(f.node))
            if not ok or nested:
                break
            for e1, e2 in zip(first.targets[0].elts, second.targets[0].elts):
                if e1.id == "_" and e2.id != "_":
                    e1.id = e2.id
            for x in ast.walk(f.node):
                if isinstance(x, ast.Name) and x.id in ren:
                    x.id = ren[x.id]
            holder.remove(second)
            if not holder:
                holder.append(ast.copy_location(ast.Pass(), second))
            ast.fix_missing_locations(f.node)
            done.append((q, second.value.id))
    return done


# --------------------------------------------------------------------------- NamedTuple interfaces
def erase_namedtuple_interfaces(model, module_names: dict) -> list:
    """A new NamedTuple class that has become the *interface* between functions (`get_shape_memo() -> ShapeMemos`,
    `memos.single_memo`, `memos.snapshot()`) is erased package-wide: `<e>.field` -> `<e>[i]`, `Cls(a, b, c, d)` -> `(a, b, c, d)`,
    `<name>.method()` -> the method's single return expression with `self` := the name, annotations naming the class dropped.
    A NamedTuple *is* the tuple, and attribute access by a field name means that position whatever the static type of `<e>` is --
    provided the field names (and method names) are used for nothing else in the package, are never stored to, and `_replace` /
    `_make` / `_asdict` / `_fields` / `isinstance(.., Cls)` do not occur.  All-or-nothing per class."""
    done = []
    cands = {}
    for mod in model.modules.values():
        if mod.short.startswith("_typeguard"):
            continue
        known = module_names.get(mod.short, set())
        for st in mod.tree.body:
            if not isinstance(st, ast.ClassDef) or st.name in known or st.decorator_list or st.keywords:
                continue
            if len(st.bases) != 1 or norm_base(st.bases[0]) != "NamedTuple":
                continue
            fields, meths, ok = [], {}, True
            for b in _strip_doc(list(st.body)):
                if isinstance(b, ast.AnnAssign) and isinstance(b.target, ast.Name) and b.value is None:
                    fields.append(b.target.id)
                elif isinstance(b, ast.FunctionDef) and not b.decorator_list and len(b.args.args) == 1 and not (b.args.vararg or b.args.kwarg or b.args.kwonlyargs):
                    body = _strip_doc(list(b.body))
                    if len(body) == 1 and isinstance(body[0], ast.Return) and body[0].value is not None and not b.name.startswith("__"):
                        meths[b.name] = (b.args.args[0].arg, body[0].value)
                    else:
                        ok = False
                elif isinstance(b, ast.Pass):
                    continue
                else:
                    ok = False
            if ok and fields:
                cands[(mod.short, st.name)] = (st, fields, meths)
    for (modshort, cname), (cnode, fields, meths) in cands.items():
        inside = {id(x) for x in ast.walk(cnode)}
        names = set(fields) | set(meths)
        ok = True
        # the names mean only this record
        for c in model.classes.values():
            if c.node is cnode or c.module.short.startswith("_typeguard"):
                continue
            if names & (set(c.methods) | {t.id for st in c.node.body if isinstance(st, ast.Assign) for t in st.targets if isinstance(t, ast.Name)}
                        | {st.target.id for st in c.node.body if isinstance(st, ast.AnnAssign) and isinstance(st.target, ast.Name)}):
                ok = False  # (dataclass fields are annotated assignments: `_NamedVariadicDim.broadcastable`)
        # ... and no function that is *unchanged* w.r.t. the pinned tree reads an attribute of that name (it cannot be reading the new record)
        try:
            from .inventory import HASHES as _H
        except ImportError:
            _H = {}
        import hashlib as _hl

        for q_, f_ in model.functions.items():
            if not ok or f_.module.short.startswith("_typeguard") or q_ not in _H:
                continue
            if _H[q_] == _hl.sha1(ast.dump(f_.node).encode()).hexdigest()[:12] and any(isinstance(x, ast.Attribute) and x.attr in names for x in ast.walk(f_.node)):
                ok = False
        for mod in model.modules.values():
            if mod.short.startswith("_typeguard") or not ok:
                continue
            for x in ast.walk(mod.tree):
                if id(x) in inside:
                    continue
                if isinstance(x, ast.Attribute) and x.attr in names and not isinstance(x.ctx, ast.Load):
                    ok = False
                if isinstance(x, ast.Attribute) and x.attr in ("_replace", "_make", "_asdict", "_fields", "_field_defaults"):
                    ok = False
                if isinstance(x, ast.Attribute) and x.attr in meths:
                    par_ok = isinstance(x.value, (ast.Name, ast.Attribute))
                    if not par_ok:
                        ok = False
                if isinstance(x, ast.Call) and isinstance(x.func, ast.Name) and x.func.id in ("isinstance", "issubclass") and any(isinstance(y, ast.Name) and y.id == cname for a in x.args for y in ast.walk(a)):
                    ok = False
                if isinstance(x, ast.Call) and isinstance(x.func, ast.Name) and x.func.id == cname:
                    if x.keywords and x.args:
                        ok = False
                    elif x.keywords and (any(k.arg is None for k in x.keywords) or {k.arg for k in x.keywords} != set(fields)):
                        ok = False
                    elif x.args and not (len(x.args) == len(fields) and not any(isinstance(a, ast.Starred) for a in x.args)) and not (len(x.args) == 1 and isinstance(x.args[0], ast.Starred)):
                        ok = False
        if not ok:
            continue

        class Tr(ast.NodeTransformer):
            def visit_Call(self, n):
                self.generic_visit(n)
                # method call on a name / attribute chain: the return expression with self := receiver
                if isinstance(n.func, ast.Attribute) and n.func.attr in meths and not n.args and not n.keywords:
                    selfn, expr = meths[n.func.attr]
                    e = _SubstLoads({selfn: n.func.value}).visit(copy.deepcopy(expr))
                    return ast.copy_location(Tr().visit(e), n)
                if isinstance(n.func, ast.Name) and n.func.id == cname:
                    if n.keywords:
                        kw = {k.arg: k.value for k in n.keywords}
                        return ast.copy_location(ast.Tuple(elts=[kw[f_] for f_ in fields], ctx=ast.Load()), n)
                    if len(n.args) == 1 and isinstance(n.args[0], ast.Starred):
                        return ast.copy_location(ast.Call(func=ast.Name(id="tuple", ctx=ast.Load()), args=[n.args[0].value], keywords=[]), n)
                    return ast.copy_location(ast.Tuple(elts=list(n.args), ctx=ast.Load()), n)
                return n

            def visit_Attribute(self, n):
                self.generic_visit(n)
                if n.attr in fields and isinstance(n.ctx, ast.Load):
                    return ast.copy_location(ast.Subscript(value=n.value, slice=ast.Constant(value=fields.index(n.attr)), ctx=ast.Load()), n)
                return n

        def mentions(e):
            return e is not None and any((isinstance(y, ast.Name) and y.id == cname) or (isinstance(y, ast.Constant) and y.value == cname) for y in ast.walk(e))

        for mod in model.modules.values():
            if mod.short.startswith("_typeguard"):
                continue
            keep_cls = [st for st in mod.tree.body if st is cnode]
            if keep_cls:
                mod.tree.body = [st for st in mod.tree.body if st is not cnode]
            Tr().visit(mod.tree)
            for x in ast.walk(mod.tree):
                if isinstance(x, (ast.FunctionDef, ast.AsyncFunctionDef)):
                    if mentions(x.returns):
                        x.returns = None
                    for a in ast.walk(x.args):
                        if isinstance(a, ast.arg) and mentions(a.annotation):
                            a.annotation = None
                elif isinstance(x, ast.ImportFrom):
                    x.names = [a for a in x.names if a.name != cname] or [ast.alias(name=cname, asname=None)]
            # drop `from .mod import Cls` lines that only imported the class
            mod.tree.body = [st for st in mod.tree.body if not (isinstance(st, ast.ImportFrom) and len(st.names) == 1 and st.names[0].name == cname)]
            for x in list(ast.walk(mod.tree)):
                if isinstance(x, ast.AnnAssign) and mentions(x.annotation) and x.value is not None and isinstance(x.target, ast.Name):
                    x.annotation = ast.Name(id="object", ctx=ast.Load())
            ast.fix_missing_locations(mod.tree)
        done.append(f"{modshort}.{cname}")
    return done


# --------------------------------------------------------------------------- walrus
def desugar_walrus(model, changed: set) -> list:
    """`(x := E)` in functions whose source differs from the pinned tree (the pinned tree has no walrus):
      * E a cheap pure expression (a name, an attribute chain, `type(n)`, `len(n)`) whose names are not re-bound (except by `n = x` itself),
        x bound nowhere else: the walrus and every read of x become E (a cached lookup undone);
      * otherwise, when the walrus is what an `if` test evaluates first: `x = E` in front of the `if`, `x` in the test."""
    done = []

    def pure(e):
        if isinstance(e, (ast.Name, ast.Constant)):
            return True
        if isinstance(e, ast.Attribute):
            return pure(e.value)
        if isinstance(e, ast.Call) and isinstance(e.func, ast.Name) and e.func.id in ("type", "len") and len(e.args) == 1 and not e.keywords and isinstance(e.args[0], ast.Name):
            return True
        return False

    for q in sorted(changed):
        f = model.functions.get(q)
        if f is None or f.module.short.startswith("_typeguard") or not isinstance(f.node, (ast.FunctionDef, ast.AsyncFunctionDef)):
            continue
        for _ in range(8):
            walr = [n for n in _walk_own(f.node) if isinstance(n, ast.NamedExpr) and isinstance(n.target, ast.Name)]
            if not walr:
                break
            progressed = False
            for w in walr:
                x = w.target.id
                stores = [n for n in ast.walk(f.node) if isinstance(n, ast.Name) and n.id == x and isinstance(n.ctx, (ast.Store, ast.Del))]
                nested = any(isinstance(s_, (ast.FunctionDef, ast.AsyncFunctionDef, ast.Lambda, ast.ListComp, ast.SetComp, ast.DictComp, ast.GeneratorExp)) and s_ is not f.node
                             and any(isinstance(y, ast.Name) and y.id == x for y in ast.walk(s_)) for s_ in ast.walk(f.node))
                if len(stores) != 1 or x in f.params or nested:
                    continue
                if pure(w.value):
                    free = {y.id for y in ast.walk(w.value) if isinstance(y, ast.Name)} - {"type", "len"}
                    rebinding_ok = True
                    for st in ast.walk(f.node):
                        if isinstance(st, ast.Name) and st.id in free and isinstance(st.ctx, (ast.Store, ast.Del)):
                            # allowed only as the target of `n = x`
                            par = [a for a in _walk_own(f.node) if isinstance(a, ast.Assign) and any(t is st for t in a.targets)]
                            if par and isinstance(par[0].value, ast.Name) and par[0].value.id == x and len(par[0].targets) == 1:
                                continue
                            # ... or as the target of a loop that encloses the walrus and every read of x (stable within one iteration)
                            loops_ = [lp for lp in _walk_own(f.node) if isinstance(lp, ast.For) and any(y is st for y in ast.walk(lp.target))]
                            uses_ = [y for y in ast.walk(f.node) if isinstance(y, ast.Name) and y.id == x]
                            if loops_ and all(any(y is u for b_ in loops_[0].body for y in ast.walk(b_)) for u in uses_):
                                continue
                            rebinding_ok = False
                    if rebinding_ok and not any(y in f.params and False for y in free):
                        class _R(ast.NodeTransformer):
                            def visit_NamedExpr(self, n):
                                if n is w:
                                    return self.generic_visit(n).value if False else n.value
                                return self.generic_visit(n)

                            def visit_Name(self, n):
                                if n.id == x and isinstance(n.ctx, ast.Load):
                                    return ast.copy_location(copy.deepcopy(w.value), n)
                                return n

                        _R().visit(f.node)
                        ast.fix_missing_locations(f.node)
                        done.append((q, x, "alias"))
                        progressed = True
                        break
                # hoist in front of the `if` whose test evaluates it first
                def head(e):
                    while True:
                        if e is w:
                            return True
                        if isinstance(e, ast.BoolOp):
                            e = e.values[0]
                        elif isinstance(e, ast.UnaryOp):
                            e = e.operand
                        elif isinstance(e, ast.Compare):
                            e = e.left
                        else:
                            return False

                hoisted = False

                def rec(stmts):
                    nonlocal hoisted
                    for i, st in enumerate(stmts):
                        if hoisted:
                            return
                        if isinstance(st, ast.If) and head(st.test):
                            class _S(ast.NodeTransformer):
                                def visit_NamedExpr(self, n):
                                    return ast.copy_location(ast.Name(id=x, ctx=ast.Load()), n) if n is w else self.generic_visit(n)
                            st.test = _S().visit(st.test)
                            stmts.insert(i, ast.copy_location(ast.Assign(targets=[ast.Name(id=x, ctx=ast.Store())], value=w.value, lineno=st.lineno), st))
                            hoisted = True
                            return
                        if isinstance(st, (ast.FunctionDef, ast.AsyncFunctionDef, ast.ClassDef)):
                            continue
                        for fld in ("body", "orelse", "finalbody"):
                            sub = getattr(st, fld, None)
                            if isinstance(sub, list) and sub and isinstance(sub[0], ast.stmt):
                                rec(sub)
                        for hd in getattr(st, "handlers", []) or []:
                            rec(hd.body)

                rec(f.node.body)
                if hoisted:
                    ast.fix_missing_locations(f.node)
                    done.append((q, x, "hoisted"))
                    progressed = True
                    break
            if not progressed:
                break
    return done


def desugar_next_search(model, changed: set) -> list:
    """`v = next((ELT for T in IT if COND), DEFAULT)` (a statement of a changed function) -> the search loop it stands for:
    `for T in IT: if COND: v = ELT; break` / `else: v = DEFAULT`."""
    done = []
    for q in sorted(changed):
        f = model.functions.get(q)
        if f is None or not isinstance(f.node, (ast.FunctionDef, ast.AsyncFunctionDef)):
            continue

        def rewrite(stmts):
            out, ch = [], False
            for st in stmts:
                for fld in ("body", "orelse", "finalbody"):
                    sub = getattr(st, fld, None)
                    if isinstance(sub, list) and sub and isinstance(sub[0], ast.stmt) and not isinstance(st, (ast.FunctionDef, ast.AsyncFunctionDef, ast.ClassDef)):
                        new, c2 = rewrite(sub)
                        setattr(st, fld, new)
                        ch = ch or c2
                v = st.value if isinstance(st, ast.Assign) and len(st.targets) == 1 and isinstance(st.targets[0], ast.Name) else None
                if isinstance(v, ast.Call) and isinstance(v.func, ast.Name) and v.func.id == "next" and len(v.args) == 2 and not v.keywords and isinstance(v.args[0], ast.GeneratorExp) \
                        and len(v.args[0].generators) == 1 and not v.args[0].generators[0].is_async and _simple(v.args[1]):
                    g = v.args[0].generators[0]
                    it = g.iter
                    # the iterable may be a local bound once just before to a call (`body = enumerate(node.body)`): use that call
                    if isinstance(it, ast.Name) and out and isinstance(out[-1], ast.Assign) and len(out[-1].targets) == 1 and isinstance(out[-1].targets[0], ast.Name) \
                            and out[-1].targets[0].id == it.id and sum(1 for x in ast.walk(f.node) if isinstance(x, ast.Name) and x.id == it.id) == 2:
                        it = out.pop().value
                    cond = g.ifs[0] if len(g.ifs) == 1 else ast.BoolOp(op=ast.And(), values=list(g.ifs)) if g.ifs else ast.Constant(value=True)
                    hit = [ast.Assign(targets=[ast.Name(id=st.targets[0].id, ctx=ast.Store())], value=v.args[0].elt), ast.Break()]
                    loop = ast.For(target=g.target, iter=it, body=[ast.If(test=cond, body=hit, orelse=[])] if g.ifs else hit,
                                   orelse=[ast.Assign(targets=[ast.Name(id=st.targets[0].id, ctx=ast.Store())], value=v.args[1])])
                    out.append(ast.fix_missing_locations(ast.copy_location(loop, st)))
                    ch = True
                    continue
                out.append(st)
            return out, ch

        new, ch = rewrite(f.node.body)
        if ch:
            f.node.body = new
            ast.fix_missing_locations(f.node)
            done.append(q)
    return done


def sink_found_actions(model, changed: set) -> list:
    """`for ..: .. if c: v = E; break` / `else: v = None`, directly followed by `if v is not None: S` (no else), with E the counter of an
    `enumerate` / `range` loop (an int: never None) -> S moves to the break site (`v = E; S; break`), the test after the loop goes: the same
    statements run in the same order on both outcomes of the search."""
    done = []
    for q in sorted(changed):
        f = model.functions.get(q)
        if f is None or not isinstance(f.node, (ast.FunctionDef, ast.AsyncFunctionDef)):
            continue

        def rewrite(stmts):
            ch = False
            i = 0
            while i < len(stmts):
                st = stmts[i]
                for fld in ("body", "orelse", "finalbody"):
                    sub = getattr(st, fld, None)
                    if isinstance(sub, list) and sub and isinstance(sub[0], ast.stmt) and not isinstance(st, (ast.FunctionDef, ast.AsyncFunctionDef, ast.ClassDef)):
                        ch = rewrite(sub) or ch
                nxt = stmts[i + 1] if i + 1 < len(stmts) else None
                if isinstance(st, ast.For) and len(st.orelse) == 1 and isinstance(st.orelse[0], ast.Assign) and len(st.orelse[0].targets) == 1 and isinstance(st.orelse[0].targets[0], ast.Name) \
                        and isinstance(st.orelse[0].value, ast.Constant) and st.orelse[0].value.value is None and isinstance(nxt, ast.If) and not nxt.orelse:
                    v = st.orelse[0].targets[0].id
                    t = nxt.test
                    if isinstance(t, ast.Compare) and len(t.ops) == 1 and isinstance(t.ops[0], ast.IsNot) and isinstance(t.left, ast.Name) and t.left.id == v \
                            and isinstance(t.comparators[0], ast.Constant) and t.comparators[0].value is None:
                        # the counter of the loop
                        counter = None
                        if isinstance(st.iter, ast.Call) and isinstance(st.iter.func, ast.Name) and st.iter.func.id == "enumerate" and isinstance(st.target, ast.Tuple) and isinstance(st.target.elts[0], ast.Name):
                            counter = st.target.elts[0].id
                        elif isinstance(st.iter, ast.Call) and isinstance(st.iter.func, ast.Name) and st.iter.func.id == "range" and isinstance(st.target, ast.Name):
                            counter = st.target.id
                        sites = []
                        for par in ast.walk(st):
                            for fld in ("body", "orelse"):
                                blk = getattr(par, fld, None)
                                if isinstance(blk, list) and par is not st or (par is st and fld == "body"):
                                    if isinstance(blk, list):
                                        for k_, x in enumerate(blk):
                                            if isinstance(x, ast.Assign) and len(x.targets) == 1 and isinstance(x.targets[0], ast.Name) and x.targets[0].id == v and x is not st.orelse[0]:
                                                sites.append((blk, k_, x))
                        ok = counter is not None and len(sites) == 1 and isinstance(sites[0][2].value, ast.Name) and sites[0][2].value.id == counter \
                            and sites[0][1] + 1 < len(sites[0][0]) and isinstance(sites[0][0][sites[0][1] + 1], ast.Break) \
                            and not any(isinstance(x, (ast.Break, ast.Continue, ast.Return)) for b_ in nxt.body for x in ast.walk(b_))
                        if ok:
                            blk, k_, _ = sites[0]
                            if not any(isinstance(x, ast.Name) and x.id in (v, counter) and isinstance(x.ctx, (ast.Store, ast.Del)) for b_ in nxt.body for x in ast.walk(b_)):
                                # at the break site `v` is the counter: read it as such
                                for b_ in nxt.body:
                                    for x in ast.walk(b_):
                                        if isinstance(x, ast.Name) and x.id == v and isinstance(x.ctx, ast.Load):
                                            x.id = counter
                            blk[k_ + 1:k_ + 1] = nxt.body
                            del stmts[i + 1]
                            ch = True
                i += 1
            return ch

        if rewrite(f.node.body):
            ast.fix_missing_locations(f.node)
            done.append(q)
    return done
