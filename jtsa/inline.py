"""Normalisation pass: helpers that are *new* with respect to the pinned tree are inlined into
their callers before the rules run.

The rules are anchored in the functions of the pinned tree (`_check_dims`, `_check_shape`,
`__instancecheck_str__`, `_make_array_cached` ...).  The commonest behaviour-preserving edit is to
extract part of such a function into a helper; the commonest defect-introducing edit that touches
structure does the same and changes something on the way.  Both are analysed best where the
code used to be: a call of a function that does not exist in the pinned inventory
(`jtsa/inventory.py`) is replaced by the callee's body, with parameters bound and clashing
locals renamed.  On the pinned tree every function is in the inventory, so the pass does nothing.

Forms handled (anything else is left as a call, i.e. today's behaviour):
  return H(...)                 -> body of H (its returns stay returns)
  x = H(...) / H(...)           -> body of H; a single trailing `return e` becomes `x = e`; several
                                   returns (none inside a loop of H) become `x = e; break` inside a
                                   synthetic `while True:` block
  ... H(...) ... in expressions -> when H is `return <expr>` only, the expression
H must be a plain module-level function, a method called on `self`/`cls`, or a local def of the
caller; no generators, async, decorators other than static/classmethod, *args/**kwargs,
global/nonlocal, recursion.
"""
from __future__ import annotations

import ast
import copy
from typing import Optional

from .model import FuncInfo, walk_scope

MAX_ROUNDS = 4
_counter = [0]


def _is_new(f: FuncInfo, inventory: set) -> bool:
    if f.qualname in inventory or f.module.short.startswith("_typeguard"):
        return False
    # a pinned function that was moved (into a class, out of one, into another function of the same
    # module) keeps its role under its name: not a helper to be dissolved
    mod = f.module.short + "."
    if any(q.startswith(mod) and q.rsplit(".", 1)[-1] == f.name for q in inventory):
        return False
    if _renamed_anchor(f) is not None:
        return False
    return True


_MODEL_FUNCS: dict = {"names": None}


def set_current_functions(names) -> None:
    _MODEL_FUNCS["names"] = set(names)


def _renamed_anchor(f: FuncInfo):
    """A pinned function of the same module that no longer exists and has exactly f's parameter
    list (at least one parameter): f is that function under a new name, not a new helper."""
    try:
        from .inventory import SIGNATURES
    except ImportError:
        return None
    cur = _MODEL_FUNCS["names"]
    if cur is None or not f.params or isinstance(f.parent, FuncInfo):
        return None
    mod = f.module.short + "."
    for q, ps in SIGNATURES.items():
        if q.startswith(mod) and q not in cur and tuple(ps) == tuple(f.params) and "<locals>" not in q:
            return q
    return None


def _decorator_kind(f: FuncInfo) -> Optional[str]:
    """'plain' | 'static' | 'class' | None (some other decorator: do not inline)."""
    kind = "plain"
    for d in f.decorators:
        if isinstance(d, ast.Name) and d.id == "staticmethod":
            kind = "static"
        elif isinstance(d, ast.Name) and d.id == "classmethod":
            kind = "class"
        else:
            return None
    return kind


ROLE_MODULES = ("_storage",)  # functions there carry roles (push/pop/get/set, flag set/clear) that the
# rules recognise at call sites and follow through delegates themselves: never inlined


def _inlinable(model, h: FuncInfo, caller: Optional[FuncInfo] = None) -> bool:
    if h.module.short in ROLE_MODULES:
        return False
    if h.cls is not None and (not h.name.startswith("_") or h.name.startswith("__")):
        return False  # public / dunder methods may override or implement a protocol of a base class: dispatch, not a helper
    n = h.node
    if not isinstance(n, ast.FunctionDef):
        return False
    if _decorator_kind(h) is None:
        return False
    a = n.args
    if a.vararg or a.kwarg:
        return False
    for x in walk_scope(n):
        if isinstance(x, (ast.Yield, ast.YieldFrom, ast.Await, ast.Global, ast.Nonlocal)):
            return False
        if isinstance(x, (ast.AsyncFunctionDef, ast.ClassDef)):
            return False
        if isinstance(x, (ast.FunctionDef, ast.Lambda)):
            # local functions move into the caller together with the locals they close over (renamed
            # consistently; names a local function binds itself are left alone inside it)
            if any(isinstance(y, (ast.Yield, ast.YieldFrom, ast.Await)) for y in ast.walk(x)) and False:
                return False
        if isinstance(x, ast.Call):
            t = model.resolve_call(h, x)
            if t.kind == "func" and t.target is h:
                return False
        if isinstance(x, ast.Name) and x.id in ("locals", "vars", "super", "__class__"):
            return False
    return True


def _returns(n) -> list:
    return [x for x in walk_scope(n) if isinstance(x, ast.Return)]


def _return_in_loop(node) -> bool:
    def rec(stmts, in_loop):
        for st in stmts:
            if isinstance(st, ast.Return) and in_loop:
                return True
            if isinstance(st, (ast.For, ast.While)):
                if rec(st.body, True) or rec(st.orelse, in_loop):
                    return True
            elif isinstance(st, ast.If):
                if rec(st.body, in_loop) or rec(st.orelse, in_loop):
                    return True
            elif isinstance(st, ast.Try):
                for b in [st.body, st.orelse, st.finalbody] + [h.body for h in st.handlers]:
                    if rec(b, in_loop):
                        return True
            elif isinstance(st, ast.With):
                if rec(st.body, in_loop):
                    return True
            elif isinstance(st, ast.Match):
                for c in st.cases:
                    if rec(c.body, in_loop):
                        return True
        return False

    return rec(node.body, False)


def _strip_doc(body: list) -> list:
    if body and isinstance(body[0], ast.Expr) and isinstance(body[0].value, ast.Constant) and isinstance(body[0].value.value, str):
        return body[1:]
    return body


def _can_fall_off(body: list) -> bool:
    if not body:
        return True
    last = body[-1]
    if isinstance(last, (ast.Return, ast.Raise)):
        return False
    if isinstance(last, ast.If) and last.orelse:
        return _can_fall_off(last.body) or _can_fall_off(last.orelse)
    if isinstance(last, ast.Try) and not last.finalbody:
        normal = last.orelse if last.orelse else last.body
        return _can_fall_off(normal) or any(_can_fall_off(h.body) for h in last.handlers)
    if isinstance(last, ast.While) and isinstance(last.test, ast.Constant) and last.test.value and not last.orelse \
            and not any(isinstance(x, ast.Break) for x in ast.walk(last)):
        return False
    return True


def _simple(e) -> bool:
    """Side-effect free and cheap enough to substitute for a parameter."""
    if isinstance(e, (ast.Name, ast.Constant)):
        return True
    if isinstance(e, ast.Attribute):
        return _simple(e.value)
    if isinstance(e, ast.Subscript):
        return _simple(e.value) and (isinstance(e.slice, (ast.Constant, ast.Name)) or (
            isinstance(e.slice, ast.Slice) and all(x is None or _simple(x) or isinstance(x, (ast.UnaryOp, ast.BinOp)) for x in (e.slice.lower, e.slice.upper, e.slice.step))))
    return False


def _bound_in(fn_node) -> set:
    """Names a nested function (or lambda) binds itself: its parameters and what it assigns (minus
    `nonlocal` names) -- inside it they refer to its own variables, not to the enclosing helper's."""
    out = {a.arg for a in ast.walk(fn_node.args) if isinstance(a, ast.arg)}
    nonloc = set()
    body = fn_node.body if isinstance(fn_node.body, list) else [fn_node.body]
    stack = list(body)
    while stack:
        n = stack.pop()
        if isinstance(n, (ast.FunctionDef, ast.AsyncFunctionDef, ast.ClassDef)):
            out.add(n.name)
            continue
        if isinstance(n, ast.Lambda):
            continue
        if isinstance(n, ast.Nonlocal):
            nonloc |= set(n.names)
        if isinstance(n, ast.Name) and isinstance(n.ctx, (ast.Store, ast.Del)):
            out.add(n.id)
        if isinstance(n, ast.ExceptHandler) and n.name:
            out.add(n.name)
        stack.extend(ast.iter_child_nodes(n))
    return out - nonloc


class _Subst(ast.NodeTransformer):
    def __init__(self, names: dict, renames: dict):
        self.names, self.renames = names, renames

    def visit_Name(self, n):
        if n.id in self.names and isinstance(n.ctx, ast.Load):
            return ast.copy_location(copy.deepcopy(self.names[n.id]), n)
        if n.id in self.renames:
            return ast.copy_location(ast.Name(id=self.renames[n.id], ctx=n.ctx), n)
        return n

    def visit_ExceptHandler(self, n):
        if n.name in self.renames:
            n.name = self.renames[n.name]
        return self.generic_visit(n)

    def _nested(self, n):
        # decorators / defaults are evaluated in the enclosing scope
        if hasattr(n, "decorator_list"):
            n.decorator_list = [self.visit(d) for d in n.decorator_list]
        n.args.defaults = [self.visit(d) for d in n.args.defaults]
        n.args.kw_defaults = [self.visit(d) if d is not None else None for d in n.args.kw_defaults]
        shadow = _bound_in(n)
        inner = _Subst({k: v for k, v in self.names.items() if k not in shadow}, {k: v for k, v in self.renames.items() if k not in shadow})
        if isinstance(n.body, list):
            n.body = [inner.visit(st) for st in n.body]
        else:
            n.body = inner.visit(n.body)
        if getattr(n, "name", None) in self.renames:
            n.name = self.renames[n.name]
        return n

    visit_FunctionDef = _nested
    visit_Lambda = _nested


def _bind(model, caller: FuncInfo, call: ast.Call, h: FuncInfo, targets=()):
    """(substitutions, prologue assignments, renames) or None.  `targets`: names the result of the
    call is assigned to -- a helper local of the same name needs no renaming (the caller's variable is
    overwritten by the assignment anyway) unless the arguments read it."""
    kind = _decorator_kind(h)
    a = h.node.args
    params = [x.arg for x in a.posonlyargs + a.args]
    kwonly = [x.arg for x in a.kwonlyargs]
    defaults = dict(zip(params[len(params) - len(a.defaults):], a.defaults)) if a.defaults else {}
    for p, d in zip(kwonly, a.kw_defaults):
        if d is not None:
            defaults[p] = d
    args = list(call.args)
    if any(isinstance(x, ast.Starred) for x in args) or any(k.arg is None for k in call.keywords):
        return None
    bound = {}
    if h.cls is not None and kind in ("plain", "class"):
        if not isinstance(call.func, ast.Attribute) or not params:
            return None
        recv = call.func.value
        # cls.h(...) / self.h(...) from a method of the same class only: calls through other objects keep
        # their abstraction (instance typing resolves them); Class.h(obj, ...) is not handled
        if not isinstance(recv, ast.Name):
            return None
        own = caller
        while isinstance(own, FuncInfo) and own.cls is None:
            own = own.parent
        if not (isinstance(own, FuncInfo) and own.params and own.params[0] == recv.id and own.cls is not None
                and h.cls in [k for k in model.mro(own.cls)]):
            return None
        bound[params[0]] = recv
        params = params[1:]
    if len(args) > len(params):
        return None
    for p, v in zip(params, args):
        bound[p] = v
    for k in call.keywords:
        if k.arg in bound or k.arg not in params + kwonly:
            return None
        bound[k.arg] = k.value
    for p in params + kwonly:
        if p not in bound:
            if p not in defaults:
                return None
            bound[p] = defaults[p]
    assigned = set(h.local_names())
    # comprehension variables are scoped to their comprehension: no clash with the caller's names
    comp_only = set()
    for comp in [x for x in ast.walk(h.node) if isinstance(x, ast.comprehension)]:
        comp_only |= {y.id for y in ast.walk(comp.target) if isinstance(y, ast.Name)}
    stored_outside = set()
    for x in walk_scope(h.node):
        if isinstance(x, (ast.Assign, ast.AugAssign, ast.AnnAssign, ast.For, ast.With, ast.NamedExpr)):
            tg = x.targets if isinstance(x, ast.Assign) else [getattr(x, "target", None)] if not isinstance(x, ast.With) else [i.optional_vars for i in x.items]
            for t_ in tg:
                if t_ is not None:
                    stored_outside |= {y.id for y in ast.walk(t_) if isinstance(y, ast.Name)}
    assigned -= (comp_only - stored_outside)
    caller_names = {x.id for x in ast.walk(caller.node) if isinstance(x, ast.Name)} | set(caller.params)
    _counter[0] += 1
    tag = f"__i{_counter[0]}"
    subst, prologue, renames = {}, [], {}
    for p, v in bound.items():
        if isinstance(v, ast.Name) and v.id == p and p not in assigned:
            continue  # same name on both sides
        if _simple(v) and p not in assigned:
            subst[p] = v
        else:
            clash = p in caller_names and not (isinstance(v, ast.Name) and v.id == p)
            if clash and p in targets and not any(isinstance(x, ast.Name) and x.id == p for a_ in list(call.args) + [k.value for k in call.keywords] for x in ast.walk(a_)):
                clash = False  # the caller's variable of that name is overwritten by the result of this very call
            new = p + tag if clash else p
            if new != p:
                renames[p] = new
            if isinstance(v, ast.Name) and v.id == new:
                continue  # `p = p`: the parameter keeps standing for the caller's variable of the same name
            prologue.append(ast.copy_location(ast.Assign(targets=[ast.Name(id=new, ctx=ast.Store())], value=copy.deepcopy(v), lineno=call.lineno), call))
    hparams = set(bound)
    arg_names = {x.id for a_ in list(call.args) + [k.value for k in call.keywords] for x in ast.walk(a_) if isinstance(x, ast.Name)}
    for loc in assigned:
        if loc in hparams:
            continue
        if loc in targets and loc not in arg_names:
            continue
        if loc in caller_names:
            renames[loc] = loc + tag
    return subst, prologue, renames


def _body_of(h: FuncInfo, subst, renames) -> list:
    body = copy.deepcopy(_strip_doc(list(h.node.body)))
    tr = _Subst(subst, renames)
    return [tr.visit(st) for st in body]


def _tgt(target):
    """A fresh Store-context copy of the assignment target (a name or a tuple of names)."""
    if isinstance(target, str):
        return ast.Name(id=target, ctx=ast.Store())
    return copy.deepcopy(target)


def _assign(target, value, loc) -> list:
    """`target = value`; a tuple assigned to a tuple of names is split into one assignment per name
    when no later value reads an earlier target (so the order does not matter); `x = x` is dropped."""
    if isinstance(target, (ast.Tuple, ast.List)) and isinstance(value, (ast.Tuple, ast.List)) and len(target.elts) == len(value.elts) \
            and all(isinstance(t, ast.Name) for t in target.elts) and not any(isinstance(v, ast.Starred) for v in value.elts):
        names = [t.id for t in target.elts]
        safe = True
        for i, t in enumerate(names):
            for j, v in enumerate(value.elts):
                if j > i and any(isinstance(x, ast.Name) and x.id == t for x in ast.walk(v)) and not (isinstance(v, ast.Name) and v.id == names[j]):
                    safe = False
        if safe:
            out = []
            for t, v in zip(names, value.elts):
                if isinstance(v, ast.Name) and v.id == t:
                    continue
                out.append(ast.copy_location(ast.Assign(targets=[ast.Name(id=t, ctx=ast.Store())], value=v, lineno=getattr(loc, "lineno", 1)), loc))
            return out or [ast.copy_location(ast.Pass(), loc)]
    tname = target if isinstance(target, str) else (target.id if isinstance(target, ast.Name) else None)
    if tname is not None and isinstance(value, ast.Name) and value.id == tname:
        return []  # `x = x`
    return [ast.copy_location(ast.Assign(targets=[_tgt(target)], value=value, lineno=getattr(loc, "lineno", 1)), loc)]


def _replace_returns(stmts: list, target, loc) -> list:
    """`return e` -> `target = e; break` (or `e; break` / `break`)"""
    out = []
    for st in stmts:
        if isinstance(st, ast.Return):
            if target is not None:
                v = st.value if st.value is not None else ast.Constant(value=None)
                out.extend(_assign(target, v, st))
            elif st.value is not None and not isinstance(st.value, (ast.Constant, ast.Name)):
                out.append(ast.copy_location(ast.Expr(value=st.value), st))
            out.append(ast.copy_location(ast.Break(), st))
            continue
        if isinstance(st, ast.If):
            st.body = _replace_returns(st.body, target, loc) or [ast.copy_location(ast.Pass(), st)]
            st.orelse = _replace_returns(st.orelse, target, loc)
        elif isinstance(st, ast.Try):
            st.body = _replace_returns(st.body, target, loc)
            st.orelse = _replace_returns(st.orelse, target, loc)
            st.finalbody = _replace_returns(st.finalbody, target, loc)
            for hd in st.handlers:
                hd.body = _replace_returns(hd.body, target, loc)
        elif isinstance(st, ast.With):
            st.body = _replace_returns(st.body, target, loc)
        elif isinstance(st, ast.Match):
            for cs in st.cases:
                cs.body = _replace_returns(cs.body, target, loc)
        out.append(st)
    return out


def _expand_stmt(model, caller: FuncInfo, st, inventory) -> Optional[list]:
    """Replacement statements for `st` if it is an inlinable call statement, else None."""
    call, mode, target = None, None, None
    if isinstance(st, ast.Return) and isinstance(st.value, ast.Call):
        call, mode = st.value, "tail"
    elif isinstance(st, ast.Assign) and len(st.targets) == 1 and isinstance(st.targets[0], ast.Name) and isinstance(st.value, ast.Call):
        call, mode, target = st.value, "assign", st.targets[0].id
    elif isinstance(st, ast.Assign) and len(st.targets) == 1 and isinstance(st.targets[0], (ast.Tuple, ast.List)) and isinstance(st.value, ast.Call) \
            and all(isinstance(e, ast.Name) for e in st.targets[0].elts):
        call, mode, target = st.value, "assign", st.targets[0]
    elif isinstance(st, ast.Assign) and len(st.targets) == 1 and isinstance(st.targets[0], ast.Attribute) and _simple(st.targets[0].value) and isinstance(st.value, ast.Call):
        call, mode, target = st.value, "assign", st.targets[0]  # `obj.attr = H(...)`
    elif isinstance(st, ast.AnnAssign) and isinstance(st.target, ast.Name) and isinstance(st.value, ast.Call):
        call, mode, target = st.value, "assign", st.target.id
    elif isinstance(st, ast.Expr) and isinstance(st.value, ast.Call):
        call, mode = st.value, "expr"
    if call is None:
        return None
    t = model.resolve_call(caller, call)
    if t.kind != "func" or not _is_new(t.target, inventory) or t.target is caller or not _inlinable(model, t.target, caller):
        return None
    h = t.target
    if h.parent is not None and isinstance(h.parent, FuncInfo) and h.parent is not caller:
        return None  # a closure of some other function
    tnames = ()
    if isinstance(target, str):
        tnames = (target,)
    elif isinstance(target, (ast.Tuple, ast.List)):
        tnames = tuple(e.id for e in target.elts if isinstance(e, ast.Name))
    b = _bind(model, caller, call, h, tnames)
    if b is None:
        return None
    subst, prologue, renames = b
    body = _body_of(h, subst, renames)
    if mode == "tail":
        if _can_fall_off(body):
            body.append(ast.copy_location(ast.Return(value=ast.Constant(value=None)), st))
        return prologue + body
    rets = _returns(ast.Module(body=body, type_ignores=[]))
    single_tail = len(rets) == 1 and body and body[-1] is rets[0]
    if not rets or single_tail:
        out = prologue + (body[:-1] if single_tail else body)
        if target is not None:
            v = rets[0].value if (single_tail and rets[0].value is not None) else ast.Constant(value=None)
            out.extend(_assign(target, v, st))
        elif single_tail and rets[0].value is not None and not isinstance(rets[0].value, (ast.Constant, ast.Name)):
            out.append(ast.copy_location(ast.Expr(value=rets[0].value), st))
        return out or [ast.copy_location(ast.Pass(), st)]
    if _return_in_loop(ast.Module(body=body, type_ignores=[])):
        return None
    falls = _can_fall_off(body)
    inner = _replace_returns(body, target, st)
    if falls:
        if target is not None:
            inner.append(ast.copy_location(ast.Assign(targets=[_tgt(target)], value=ast.Constant(value=None), lineno=st.lineno), st))
        inner.append(ast.copy_location(ast.Break(), st))
    loop = ast.copy_location(ast.While(test=ast.Constant(value=True), body=inner, orelse=[]), st)
    return prologue + [loop]


def _as_expression(body: list):
    """A body made only of `return e` and `if t: <such a body> [else: <such a body>]` statements, as
    one expression (`e1 if t else e2`); None if it has any other statement or can fall off its end."""
    if not body:
        return None
    st = body[0]
    if isinstance(st, ast.Return):
        return st.value if st.value is not None else ast.Constant(value=None)
    if isinstance(st, ast.If):
        a = _as_expression(st.body)
        b = _as_expression(list(st.orelse) + list(body[1:]))
        if a is None or b is None:
            return None
        return ast.copy_location(ast.IfExp(test=st.test, body=a, orelse=b), st)
    return None


class _ExprInliner(ast.NodeTransformer):
    """Calls of expression-only helpers inside larger expressions."""

    def __init__(self, model, caller, inventory):
        self.model, self.caller, self.inventory = model, caller, inventory
        self.changed = False

    def visit_FunctionDef(self, n):
        return n

    visit_AsyncFunctionDef = visit_FunctionDef
    visit_ClassDef = visit_FunctionDef

    def visit_Call(self, n):
        self.generic_visit(n)
        t = self.model.resolve_call(self.caller, n)
        if t.kind != "func" or not _is_new(t.target, self.inventory) or t.target is self.caller or not _inlinable(self.model, t.target, self.caller):
            return n
        h = t.target
        if h.parent is not None and isinstance(h.parent, FuncInfo) and h.parent is not self.caller:
            return n
        body = _strip_doc(list(h.node.body))
        expr = _as_expression(body)
        if expr is None:
            return n
        b = _bind(self.model, self.caller, n, h)
        if b is None:
            return n
        subst, prologue, renames = b
        if prologue or renames:
            return n  # needs statements: not possible inside an expression
        e = _Subst(subst, {}).visit(copy.deepcopy(expr))
        self.changed = True
        return ast.copy_location(e, n)


def _process_block(model, caller, stmts: list, inventory) -> tuple:
    out, changed = [], False
    for st in stmts:
        rep = _expand_stmt(model, caller, st, inventory)
        if rep is not None:
            out.extend(rep)
            changed = True
            continue
        if isinstance(st, (ast.FunctionDef, ast.AsyncFunctionDef, ast.ClassDef)):
            out.append(st)
            continue
        for fld in ("body", "orelse", "finalbody"):
            sub = getattr(st, fld, None)
            if isinstance(sub, list) and sub and isinstance(sub[0], ast.stmt):
                new, ch = _process_block(model, caller, sub, inventory)
                setattr(st, fld, new)
                changed = changed or ch
        for hd in getattr(st, "handlers", []) or []:
            new, ch = _process_block(model, caller, hd.body, inventory)
            hd.body = new
            changed = changed or ch
        for cs in getattr(st, "cases", []) or []:
            new, ch = _process_block(model, caller, cs.body, inventory)
            cs.body = new
            changed = changed or ch
        # expression-level calls in the statement's own expressions
        ei = _ExprInliner(model, caller, inventory)
        for fld, val in list(ast.iter_fields(st)):
            if isinstance(val, ast.expr):
                setattr(st, fld, ei.visit(val))
            elif isinstance(val, list) and val and all(isinstance(x, ast.expr) for x in val):
                setattr(st, fld, [ei.visit(x) for x in val])
            elif isinstance(val, list) and val and all(isinstance(x, ast.withitem) for x in val):
                for wi in val:
                    wi.context_expr = ei.visit(wi.context_expr)
        changed = changed or ei.changed
        out.append(st)
    return out, changed


def inline_new_helpers(model, inventory: set) -> list:
    """One round: inlines calls of new helpers in every function of the model (in place, on the
    module trees).  Returns the qualified names of the callers that changed."""
    changed = []
    set_current_functions(model.functions)
    new_helpers = [f for f in model.functions.values() if _is_new(f, inventory)]
    if not new_helpers:
        return changed
    for f in list(model.functions.values()):
        if f.module.short.startswith("_typeguard") or not isinstance(f.node, (ast.FunctionDef, ast.AsyncFunctionDef)):
            continue
        body, ch = _process_block(model, f, f.node.body, inventory)
        if ch:
            f.node.body = body
            ast.fix_missing_locations(f.node)
            changed.append(f.qualname)
    return changed


def drop_absorbed_helpers(model, inventory: set) -> list:
    """After inlining: a new helper that is no longer called or mentioned anywhere has been absorbed
    by its callers; its definition is removed so that censuses do not count its statements twice.
    (The model must have been re-indexed after the last inlining round.)"""
    new_helpers = [f for f in model.functions.values() if _is_new(f, inventory) and isinstance(f.node, ast.FunctionDef)]
    if not new_helpers:
        return []
    used = set()
    for mod in model.modules.values():
        for n in ast.walk(mod.tree):
            if isinstance(n, ast.Name) and isinstance(n.ctx, ast.Load):
                used.add(n.id)
            elif isinstance(n, ast.Attribute) and isinstance(n.ctx, ast.Load):
                used.add(n.attr)
            elif isinstance(n, ast.Constant) and isinstance(n.value, str) and n.value.isidentifier():
                used.add(n.value)  # getattr(x, "name") / __all__
            elif isinstance(n, ast.alias):
                used.add(n.name.split(".")[-1])
    dropped = []
    for h in new_helpers:
        if h.name in used or h.name.startswith("__") or not h.name.startswith("_"):
            continue
        owner_body = None
        if isinstance(h.parent, FuncInfo):
            continue  # local defs stay (cheap, and their enclosing function may refer to them in ways we miss)
        if h.cls is not None:
            owner_body = h.cls.node.body
        else:
            owner_body = h.module.tree.body
        if h.node in owner_body and len(owner_body) > 1:
            owner_body.remove(h.node)
            dropped.append(h.qualname)
    return dropped


# --------------------------------------------------------------------------- new named constants
def _const_node(v):
    """The constant a module-level binding stands for, or None: str / number / bool / None
    literals and tuples of them (an f-string without holes and implicit concatenation already are
    a single Constant in the AST)."""
    if isinstance(v, ast.Constant) and not isinstance(v.value, (bytes, type(Ellipsis))):
        return v
    if isinstance(v, ast.Tuple) and v.elts and all(isinstance(e, ast.Constant) for e in v.elts):
        return v
    if isinstance(v, ast.JoinedStr) and all(isinstance(x, ast.Constant) for x in v.values):
        return ast.Constant(value="".join(x.value for x in v.values))
    return None


class _FoldFStrings(ast.NodeTransformer):
    def visit_JoinedStr(self, n):
        self.generic_visit(n)
        out = []
        for v in n.values:
            if isinstance(v, ast.FormattedValue) and isinstance(v.value, ast.Constant) and isinstance(v.value.value, str) \
                    and v.conversion == -1 and v.format_spec is None:
                v = ast.copy_location(ast.Constant(value=v.value.value), v)
            if isinstance(v, ast.Constant) and out and isinstance(out[-1], ast.Constant):
                out[-1] = ast.copy_location(ast.Constant(value=out[-1].value + v.value), out[-1])
            else:
                out.append(v)
        if len(out) == 1 and isinstance(out[0], ast.Constant):
            return ast.copy_location(ast.Constant(value=out[0].value), n)
        n.values = out
        return n


def propagate_new_constants(model, module_names: dict) -> list:
    """Named constants that do not exist in the pinned tree (`_PREFIX = "jaxtyping9"`, an error text,
    an environment-variable name) are substituted back where they are read, in function bodies and
    class bodies; f-strings whose holes became literals are folded.  `module_names`: module -> names
    bound at module level in the pinned tree.  Returns the names substituted."""
    consts = {}
    for mod in model.modules.values():
        if mod.short.startswith("_typeguard"):
            continue
        known = module_names.get(mod.short, set())
        for name, vals in mod.assigns.items():
            if name in known or len(vals) != 1 or vals[0] is None:
                continue
            if name in mod.functions or name in mod.classes:
                continue
            c = _const_node(vals[0])
            if c is not None:
                consts[(mod.short, name)] = c
    if not consts:
        return []
    used = set()

    def rewrite(scope, node):
        class Tr(ast.NodeTransformer):
            def visit_Name(self, n):
                if isinstance(n.ctx, ast.Load):
                    b = model.resolve_name(scope, n.id)
                    if b.kind == "modvar":
                        key = (b.target[0].short, b.target[1])
                        if key in consts:
                            used.add(key)
                            return ast.copy_location(copy.deepcopy(consts[key]), n)
                return n

            def visit_FunctionDef(self, n):
                return n if n is not node else self.generic_visit(n)

            visit_AsyncFunctionDef = visit_FunctionDef

            def visit_ClassDef(self, n):
                return n if n is not node else self.generic_visit(n)

        Tr().visit(node)
        _FoldFStrings().visit(node)

    for f in list(model.functions.values()):
        if f.module.short.startswith("_typeguard"):
            continue
        rewrite(f, f.node)
    for mod in model.modules.values():
        if mod.short.startswith("_typeguard"):
            continue
        for st in mod.tree.body:
            if isinstance(st, (ast.FunctionDef, ast.AsyncFunctionDef, ast.ClassDef)):
                continue
            if isinstance(st, ast.Assign) and len(st.targets) == 1 and isinstance(st.targets[0], ast.Name) and (mod.short, st.targets[0].id) in consts:
                continue
            rewrite(mod, st)
    return sorted(f"{m}.{n}" for m, n in used)


# --------------------------------------------------------------------------- match statements
class _DesugarMatch(ast.NodeTransformer):
    """`match` -> if / elif chain (the pinned tree has no `match`; the rules and the CFG builder speak
    if/elif).  Value, singleton, class-without-arguments, or-patterns, the wildcard and simple captures are
    translated exactly; any other pattern becomes an opaque test `__match__("<pattern>", subject)` that
    every oracle treats as unknown."""

    def __init__(self):
        self.n = 0
        self.changed = False

    def _cond(self, pat, subj, binds):
        if isinstance(pat, ast.MatchValue):
            return ast.Compare(left=copy.deepcopy(subj), ops=[ast.Eq()], comparators=[pat.value])
        if isinstance(pat, ast.MatchSingleton):
            return ast.Compare(left=copy.deepcopy(subj), ops=[ast.Is()], comparators=[ast.Constant(value=pat.value)])
        if isinstance(pat, ast.MatchClass) and not pat.patterns and not pat.kwd_patterns:
            return ast.Call(func=ast.Name(id="isinstance", ctx=ast.Load()), args=[copy.deepcopy(subj), pat.cls], keywords=[])
        if isinstance(pat, ast.MatchOr):
            parts = [self._cond(p_, subj, binds) for p_ in pat.patterns]
            return ast.BoolOp(op=ast.Or(), values=parts)
        if isinstance(pat, ast.MatchAs):
            if pat.pattern is None:
                if pat.name is not None:
                    binds.append(pat.name)
                return ast.Constant(value=True)
            c = self._cond(pat.pattern, subj, binds)
            if pat.name is not None:
                binds.append(pat.name)
            return c
        return ast.Call(func=ast.Name(id="__match__", ctx=ast.Load()), args=[ast.Constant(value=ast.unparse(pat)), copy.deepcopy(subj)], keywords=[])

    def visit_Match(self, node):
        self.generic_visit(node)
        self.changed = True
        pre = []
        subj = node.subject
        if not _simple(subj):
            self.n += 1
            tmp = f"__match_subject{self.n}"
            pre.append(ast.copy_location(ast.Assign(targets=[ast.Name(id=tmp, ctx=ast.Store())], value=subj, lineno=node.lineno), node))
            subj = ast.Name(id=tmp, ctx=ast.Load())
        chain = None
        last = None
        for case in node.cases:
            binds = []
            cond = self._cond(case.pattern, subj, binds)
            if case.guard is not None:
                cond = ast.BoolOp(op=ast.And(), values=[cond, case.guard])
            body = [ast.copy_location(ast.Assign(targets=[ast.Name(id=b, ctx=ast.Store())], value=copy.deepcopy(subj), lineno=case.body[0].lineno), case.body[0]) for b in binds] + list(case.body)
            always = isinstance(cond, ast.Constant) and cond.value is True
            if always and last is not None:
                last.orelse = body
                break
            if always:
                chain = body  # a lone wildcard
                last = None
                break
            new_if = ast.copy_location(ast.If(test=ast.copy_location(cond, case.pattern), body=body, orelse=[]), case.pattern)
            if last is None:
                chain = [new_if]
            else:
                last.orelse = [new_if]
            last = new_if
        out = pre + (chain or [ast.copy_location(ast.Pass(), node)])
        for st in out:
            ast.fix_missing_locations(st)
        return out


def desugar_match(model) -> bool:
    changed = False
    for mod in model.modules.values():
        if mod.short.startswith("_typeguard"):
            continue
        if not any(isinstance(x, ast.Match) for x in ast.walk(mod.tree)):
            continue
        tr = _DesugarMatch()
        tr.visit(mod.tree)
        ast.fix_missing_locations(mod.tree)
        changed = changed or tr.changed
    return changed


# --------------------------------------------------------------------------- NamedTuple holders
def _new_namedtuples(model, module_names: dict) -> dict:
    """(module short, class name) -> [field names] for NamedTuple classes that do not exist in the pinned
    tree and only declare fields (no defaults, no methods): plain tuples with named access."""
    out = {}
    for mod in model.modules.values():
        if mod.short.startswith("_typeguard"):
            continue
        known = module_names.get(mod.short, set())
        for st in mod.tree.body:
            if not isinstance(st, ast.ClassDef) or st.name in known or st.decorator_list or st.keywords:
                continue
            if len(st.bases) != 1 or norm_base(st.bases[0]) != "NamedTuple":
                continue
            fields, ok = [], True
            for b in _strip_doc(list(st.body)):
                if isinstance(b, ast.AnnAssign) and isinstance(b.target, ast.Name) and b.value is None:
                    fields.append(b.target.id)
                elif isinstance(b, ast.Pass):
                    continue
                else:
                    ok = False
            if ok and fields:
                out[(mod.short, st.name)] = fields
    return out


def norm_base(b) -> str:
    if isinstance(b, ast.Name):
        return b.id
    if isinstance(b, ast.Attribute):
        return b.attr
    return ""


def erase_new_namedtuples(model, module_names: dict) -> list:
    """`memos = _Memos(*get_shape_memo()); memos.single` -> `memos = get_shape_memo(); memos[0]`.
    A NamedTuple *is* the tuple; the rules speak positions.  Only for classes new w.r.t. the pinned tree,
    and only for names that are bound (in the same function) from a constructor call of that class and from
    nothing else.  `_replace`, `_asdict`, `_fields` keep the object opaque (no rewrite of that name)."""
    nts = _new_namedtuples(model, module_names)
    if not nts:
        return []
    used = set()

    def ctor(scope, call):
        if not isinstance(call, ast.Call):
            return None
        b = None
        if isinstance(call.func, ast.Name):
            b = model.resolve_name(scope, call.func.id)
        if b is None or b.kind not in ("class", "modvar"):
            return None
        try:
            if b.kind == "class":
                key = (b.target.module.short, b.target.name)
            else:
                key = (b.target[0].short, b.target[1])
        except Exception:
            return None
        return key if key in nts else None

    def unwrap(call, fields):
        """The tuple expression a constructor call stands for, or None."""
        if call.keywords and call.args:
            return None
        if call.keywords:
            kw = {k.arg: k.value for k in call.keywords}
            if None in kw or set(kw) != set(fields):
                return None
            return ast.copy_location(ast.Tuple(elts=[kw[f] for f in fields], ctx=ast.Load()), call)
        if len(call.args) == 1 and isinstance(call.args[0], ast.Starred):
            return call.args[0].value
        if len(call.args) == len(fields) and not any(isinstance(a, ast.Starred) for a in call.args):
            return ast.copy_location(ast.Tuple(elts=list(call.args), ctx=ast.Load()), call)
        return None

    for f in list(model.functions.values()):
        if f.module.short.startswith("_typeguard"):
            continue
        # names bound only from constructor calls of one such class
        bound, spoiled, ok_targets = {}, set(), set()
        for n in _walk_own(f.node):
            if isinstance(n, ast.Assign) and len(n.targets) == 1 and isinstance(n.targets[0], ast.Name):
                k = ctor(f, n.value)
                nm = n.targets[0].id
                if k is not None and unwrap(n.value, nts[k]) is not None and bound.get(nm, k) == k:
                    bound[nm] = k
                    ok_targets.add(id(n.targets[0]))
        for n in _walk_own(f.node):
            if isinstance(n, ast.Name) and isinstance(n.ctx, (ast.Store, ast.Del)) and id(n) not in ok_targets:
                spoiled.add(n.id)
        params = {a.arg for a in ast.walk(f.node.args) if isinstance(a, ast.arg)}
        for nm in list(bound):
            if nm in spoiled or nm in params:
                del bound[nm]
        # opaque uses
        for n in _walk_own(f.node):
            if isinstance(n, ast.Attribute) and isinstance(n.value, ast.Name) and n.value.id in bound and n.attr not in nts[bound[n.value.id]]:
                bound.pop(n.value.id, None)
        if not bound:
            continue

        n_assign = {}
        for n in _walk_own(f.node):
            if isinstance(n, ast.Assign) and id(n.targets[0]) in ok_targets:
                n_assign[n.targets[0].id] = n_assign.get(n.targets[0].id, 0) + 1
        # a name bound once gets one local per field read (`memos__single = memos[0]` right after the
        # binding; tuples are immutable and the name is never re-bound, so this is the same value)
        spread = {nm for nm in bound if n_assign.get(nm) == 1}
        fields_read = {}

        class Tr(ast.NodeTransformer):
            def visit_Attribute(self, n):
                self.generic_visit(n)
                if isinstance(n.value, ast.Name) and n.value.id in bound and n.attr in nts[bound[n.value.id]]:
                    nm = n.value.id
                    used.add(".".join(bound[nm]))
                    if nm in spread and isinstance(n.ctx, ast.Load):
                        fields_read.setdefault(nm, set()).add(n.attr)
                        return ast.copy_location(ast.Name(id=f"{nm}__{n.attr}", ctx=ast.Load()), n)
                    return ast.copy_location(ast.Subscript(value=n.value, slice=ast.Constant(value=nts[bound[nm]].index(n.attr)), ctx=n.ctx), n)
                return n

            def visit_Assign(self, n):
                self.generic_visit(n)
                if len(n.targets) == 1 and isinstance(n.targets[0], ast.Name) and n.targets[0].id in bound:
                    k = ctor(f, n.value)
                    if k is not None:
                        n.value = unwrap(n.value, nts[k])
                        used.add(".".join(k))
                return n

            def visit_FunctionDef(self, n):
                return n if n is not f.node else self.generic_visit(n)

            visit_AsyncFunctionDef = visit_FunctionDef
            visit_Lambda = lambda self, n: n  # noqa: E731

        Tr().visit(f.node)

        def spread_in(stmts):
            i = 0
            while i < len(stmts):
                st = stmts[i]
                if isinstance(st, ast.Assign) and id(st.targets[0]) in ok_targets and st.targets[0].id in fields_read:
                    nm = st.targets[0].id
                    flds = nts[bound[nm]]
                    extra = [
                        ast.copy_location(ast.Assign(targets=[ast.Name(id=f"{nm}__{fl}", ctx=ast.Store())],
                                                     value=ast.Subscript(value=ast.Name(id=nm, ctx=ast.Load()), slice=ast.Constant(value=flds.index(fl)), ctx=ast.Load()),
                                                     lineno=st.lineno), st)
                        for fl in flds if fl in fields_read[nm]
                    ]
                    stmts[i + 1:i + 1] = extra
                    i += len(extra)
                else:
                    for fld in ("body", "orelse", "finalbody"):
                        sub = getattr(st, fld, None)
                        if isinstance(sub, list) and not isinstance(st, (ast.FunctionDef, ast.AsyncFunctionDef, ast.ClassDef)):
                            spread_in(sub)
                    for hd in getattr(st, "handlers", []) or []:
                        spread_in(hd.body)
                i += 1

        if fields_read:
            spread_in(f.node.body)
        Tr().visit(f.node)
        ast.fix_missing_locations(f.node)
    return sorted(used)


def _walk_own(fn_node):
    """Nodes of a function body, not descending into nested function definitions / lambdas / classes."""
    work = list(fn_node.body)
    while work:
        n = work.pop()
        yield n
        for c in ast.iter_child_nodes(n):
            if isinstance(c, (ast.FunctionDef, ast.AsyncFunctionDef, ast.Lambda, ast.ClassDef)):
                continue
            work.append(c)
