"""Alpha-renaming of local variables back to their pinned names.

Many rules anchor on the local names of the pinned tree (`out`, `dtype`, `cls_dtype`, `dims`, ...) and then check what is done
with them.  A consistent renaming of a local variable changes nothing a user can observe, so a rule must not care; instead of
teaching every rule, the normalisation pass renames locals of *changed* functions back:

  * `tools/gen_inventory.py` stores, for every local of every pinned function, two digests: of the statements that define it and
    of the statements that use it, with the variable itself written `@`, every other local written `_` and everything else kept
    (`local_fingerprints`);
  * in a changed function a local `w` that the pinned function does not have is renamed to the pinned local `v` that the changed
    function no longer has when their fingerprints agree and the pairing is unique in both directions: first on (definitions, uses),
    then on definitions alone;
  * the renaming is capture-free by construction: `v` occurs nowhere in the function (no Name, parameter, nested def, import alias,
    global/nonlocal), and `w` is bound only by plain stores of the function's own scope -- so the rewritten function is
    alpha-equivalent to the one in the tree and no defect can be hidden by it.

On the pinned tree no function is changed and the pass is the identity."""
import ast
import copy
import hashlib

SCOPES = (ast.FunctionDef, ast.AsyncFunctionDef, ast.Lambda, ast.ClassDef, ast.ListComp, ast.SetComp, ast.DictComp, ast.GeneratorExp)


def _own_stmts(fn):
    """statements of fn's own scope, depth first in source order (nested defs and classes are yielded but not entered)"""
    def rec(stmts):
        for st in stmts:
            yield st
            if isinstance(st, (ast.FunctionDef, ast.AsyncFunctionDef, ast.ClassDef)):
                continue
            for fld in ("body", "orelse", "finalbody"):
                sub = getattr(st, fld, None)
                if isinstance(sub, list):
                    yield from rec(sub)
            for h in getattr(st, "handlers", []) or []:
                yield from rec(h.body)
            for c in getattr(st, "cases", []) or []:
                yield from rec(c.body)
    yield from rec(fn.body)


def _headers(st):
    """the expressions evaluated by the statement itself (not by the statements nested in it)"""
    if isinstance(st, (ast.FunctionDef, ast.AsyncFunctionDef, ast.ClassDef)):
        return []
    if isinstance(st, (ast.If, ast.While)):
        return [("test", st.test)]
    if isinstance(st, (ast.For, ast.AsyncFor)):
        return [("for", ast.Tuple(elts=[st.target, st.iter], ctx=ast.Load()))]
    if isinstance(st, (ast.With, ast.AsyncWith)):
        out = []
        for it in st.items:
            out.append(("with", ast.Tuple(elts=[it.context_expr] + ([it.optional_vars] if it.optional_vars is not None else []), ctx=ast.Load())))
        return out
    if isinstance(st, ast.Try) or (hasattr(ast, "TryStar") and isinstance(st, ast.TryStar)):
        return [("except", h.type) for h in st.handlers if h.type is not None]
    if isinstance(st, ast.Match):
        return [("match", st.subject)]
    return [(type(st).__name__, st)]


def _own_names(node):
    """Name nodes below `node` that belong to the scope `node` is evaluated in (not entering nested scopes)"""
    work = [node]
    while work:
        n = work.pop()
        if isinstance(n, ast.Name):
            yield n
        for c in ast.iter_child_nodes(n):
            if isinstance(c, SCOPES):
                continue
            work.append(c)


def params_of(fn):
    return {a.arg for a in ast.walk(fn.args) if isinstance(a, ast.arg)}


def locals_of(fn):
    """names bound by plain stores (assignment, for, with, walrus) in fn's own scope, parameters excluded"""
    out = set()
    for st in _own_stmts(fn):
        for _k, h in _headers(st):
            for n in _own_names(h):
                if isinstance(n.ctx, ast.Store):
                    out.add(n.id)
    return out - params_of(fn)


def local_fingerprints(fn, names=None):
    """{local: (digest of defining headers, digest of using headers)}"""
    locs = locals_of(fn)
    want = locs if names is None else (set(names) & locs)
    defs = {n: [] for n in want}
    uses = {n: [] for n in want}
    for st in _own_stmts(fn):
        for kind, h in _headers(st):
            present = {}
            for n in ast.walk(h):
                if isinstance(n, ast.Name) and n.id in want:
                    present.setdefault(n.id, set()).add(type(n.ctx).__name__)
            if not present:
                continue
            for v, ctxs in present.items():
                hh = copy.deepcopy(h)
                for n in ast.walk(hh):
                    if isinstance(n, ast.Name):
                        if n.id == v:
                            n.id = "@"
                        elif n.id in locs:
                            n.id = "_"
                text = kind + ":" + ast.dump(hh)
                if "Store" in ctxs or "Del" in ctxs:
                    defs[v].append(text)
                if "Load" in ctxs:
                    uses[v].append(text)
    dg = lambda xs: hashlib.sha1("\n".join(sorted(xs)).encode()).hexdigest()[:10]
    return {v: (dg(defs[v]), dg(uses[v])) for v in want}


def _all_identifiers(fn):
    out = set()
    for n in ast.walk(fn):
        if isinstance(n, ast.Name):
            out.add(n.id)
        elif isinstance(n, ast.arg):
            out.add(n.arg)
        elif isinstance(n, (ast.FunctionDef, ast.AsyncFunctionDef, ast.ClassDef)) and n is not fn:
            out.add(n.name)
        elif isinstance(n, (ast.Global, ast.Nonlocal)):
            out.update(n.names)
        elif isinstance(n, ast.alias):
            out.add((n.asname or n.name).split(".")[0])
        elif isinstance(n, ast.ExceptHandler) and n.name:
            out.add(n.name)
        elif isinstance(n, ast.keyword) and n.arg:
            pass
        elif hasattr(ast, "MatchAs") and isinstance(n, (ast.MatchAs, ast.MatchStar)) and n.name:
            out.add(n.name)
    return out


def _bound_elsewhere(fn, w):
    """is `w` bound by anything but a plain store of fn's own scope?"""
    for n in ast.walk(fn):
        if n is fn:
            continue
        if isinstance(n, SCOPES):
            if isinstance(n, (ast.FunctionDef, ast.AsyncFunctionDef, ast.Lambda)):
                if w in {a.arg for a in ast.walk(n.args) if isinstance(a, ast.arg)}:
                    return True
            if isinstance(n, (ast.FunctionDef, ast.AsyncFunctionDef, ast.ClassDef)) and n.name == w:
                return True
            for x in ast.walk(n):
                if x is not n and isinstance(x, ast.Name) and x.id == w and isinstance(x.ctx, (ast.Store, ast.Del)):
                    return True
        if isinstance(n, (ast.Global, ast.Nonlocal)) and w in n.names:
            return True
        if isinstance(n, ast.alias) and (n.asname or n.name).split(".")[0] == w:
            return True
        if isinstance(n, ast.ExceptHandler) and n.name == w:
            return True
        if hasattr(ast, "MatchAs") and isinstance(n, (ast.MatchAs, ast.MatchStar)) and n.name == w:
            return True
    return False


def _uses_dynamic_scope(fn):
    return any(isinstance(n, ast.Name) and n.id in ("locals", "vars", "eval", "exec") for n in ast.walk(fn))


def rename_locals_back(model, changed, LOCALS):
    """returns [(qualname, new name, pinned name)]"""
    done = []
    for q in sorted(changed):
        pinned = LOCALS.get(q)
        f = model.functions.get(q)
        if not pinned or f is None:
            continue
        fn = f.node
        if not isinstance(fn, (ast.FunctionDef, ast.AsyncFunctionDef)) or _uses_dynamic_scope(fn):
            continue
        ids = _all_identifiers(fn)
        missing = [v for v in pinned if v not in ids]
        if not missing:
            continue
        locs = locals_of(fn)
        unknown = sorted(w for w in locs if w not in pinned and not w.startswith("__") and not _bound_elsewhere(fn, w))
        if not unknown:
            continue
        fps = local_fingerprints(fn, unknown)
        pairs = []
        for key in (lambda fp: tuple(fp), lambda fp: fp[0]):
            left = [w for w in unknown if w not in {p[0] for p in pairs}]
            right = [v for v in missing if v not in {p[1] for p in pairs}]
            by_new, by_old = {}, {}
            for w in left:
                by_new.setdefault(key(fps[w]), []).append(w)
            for v in right:
                by_old.setdefault(key(tuple(pinned[v])), []).append(v)
            for k, ws in by_new.items():
                vs = by_old.get(k, [])
                if len(ws) == 1 and len(vs) == 1:
                    pairs.append((ws[0], vs[0]))
        for w, v in pairs:
            for n in ast.walk(fn):
                if isinstance(n, ast.Name) and n.id == w:
                    n.id = v
            done.append((q, w, v))
    return done


# ------------------------------------------------------------------ a pinned function under a new name
def bag_of(fn) -> set:
    """identifiers, attribute names and short string constants of a function body (what a rename of the function keeps)"""
    out = set()
    for n in ast.walk(fn):
        if isinstance(n, ast.Name):
            out.add(n.id)
        elif isinstance(n, ast.Attribute):
            out.add("." + n.attr)
        elif isinstance(n, ast.Constant) and isinstance(n.value, str) and 0 < len(n.value) < 40:
            out.add("'" + n.value)
    return out


def pick_renamed(cands: list, pinned_bag) -> object:
    """cands: new functions with the pinned parameter list.  One candidate: it.  Several: the one whose body resembles the pinned
    body most (Jaccard >= 0.5, strictly ahead of the runner-up); else None."""
    if len(cands) == 1:
        return cands[0]
    if not cands or not pinned_bag:
        return None
    pb = set(pinned_bag)
    scored = []
    for c in cands:
        b = bag_of(c.node)
        scored.append((len(b & pb) / max(1, len(b | pb)), c))
    scored.sort(key=lambda x: -x[0])
    if scored[0][0] >= 0.5 and scored[0][0] > scored[1][0]:
        return scored[0][1]
    return None
