"""Alpha-renaming of local variables back to their pinned names.

Many rules anchor on the local names of the pinned tree (`out`, `dtype`, `cls_dtype`, `dims`, ...) and then check what is done
with them.  A consistent renaming of a local variable changes nothing a user can observe, so a rule must not care; instead of
teaching every rule, the normalisation pass renames locals of *changed* functions back:

  * `tools/gen_inventory.py` stores, for every local of every pinned function, two digests: of the statements that define it and
    of the statements that use it, with the variable itself written `@`, every other local written `_` and everything else kept
    (`local_fingerprints`);
  * in a changed function a local `w` that the pinned function does not have is renamed to the pinned local `v` that the changed
    function no longer has when their fingerprints agree and the pairing is unique in both directions: first on (definitions, uses),
    then on definitions alone;
  * the renaming is capture-free by construction: `v` occurs nowhere in the function (no Name, parameter, nested def, import alias,
    global/nonlocal), and `w` is bound only by plain stores of the function's own scope -- so the rewritten function is
    alpha-equivalent to the one in the tree and no defect can be hidden by it.

On the pinned tree no function is changed and the pass is the identity."""
import ast
import copy
import hashlib

SCOPES = (ast.FunctionDef, ast.AsyncFunctionDef, ast.Lambda, ast.ClassDef, ast.ListComp, ast.SetComp, ast.DictComp, ast.GeneratorExp)


def _own_stmts(fn):
    """statements of fn's own scope, depth first in source order (nested defs and classes are yielded but not entered)"""
    def rec(stmts):
        for st in stmts:
            yield st
            if isinstance(st, (ast.FunctionDef, ast.AsyncFunctionDef, ast.ClassDef)):
                continue
            for fld in ("body", "orelse", "finalbody"):
                sub = getattr(st, fld, None)
                if isinstance(sub, list):
                    yield from rec(sub)
            for h in getattr(st, "handlers", []) or []:
                yield from rec(h.body)
            for c in getattr(st, "cases", []) or []:
                yield from rec(c.body)
    yield from rec(fn.body)


def _headers(st):
    """the expressions evaluated by the statement itself (not by the statements nested in it)"""
    if isinstance(st, (ast.FunctionDef, ast.AsyncFunctionDef, ast.ClassDef)):
        return []
    if isinstance(st, (ast.If, ast.While)):
        return [("test", st.test)]
    if isinstance(st, (ast.For, ast.AsyncFor)):
        return [("for", ast.Tuple(elts=[st.target, st.iter], ctx=ast.Load()))]
    if isinstance(st, (ast.With, ast.AsyncWith)):
        out = []
        for it in st.items:
            out.append(("with", ast.Tuple(elts=[it.context_expr] + ([it.optional_vars] if it.optional_vars is not None else []), ctx=ast.Load())))
        return out
    if isinstance(st, ast.Try) or (hasattr(ast, "TryStar") and isinstance(st, ast.TryStar)):
        return [("except", h.type) for h in st.handlers if h.type is not None]
    if isinstance(st, ast.Match):
        return [("match", st.subject)]
    return [(type(st).__name__, st)]


def _own_names(node):
    """Name nodes below `node` that belong to the scope `node` is evaluated in (not entering nested scopes)"""
    work = [node]
    while work:
        n = work.pop()
        if isinstance(n, ast.Name):
            yield n
        for c in ast.iter_child_nodes(n):
            if isinstance(c, SCOPES):
                continue
            work.append(c)


def params_of(fn):
    return {a.arg for a in ast.walk(fn.args) if isinstance(a, ast.arg)}


def locals_of(fn):
    """names bound by plain stores (assignment, for, with, walrus) in fn's own scope, parameters excluded"""
    out = set()
    for st in _own_stmts(fn):
        for _k, h in _headers(st):
            for n in _own_names(h):
                if isinstance(n.ctx, ast.Store):
                    out.add(n.id)
    return out - params_of(fn)


def local_fingerprints(fn, names=None):
    """{local: (digest of defining headers, digest of using headers)}"""
    locs = locals_of(fn)
    want = locs if names is None else (set(names) & locs)
    defs = {n: [] for n in want}
    uses = {n: [] for n in want}
    for st in _own_stmts(fn):
        for kind, h in _headers(st):
            present = {}
            for n in ast.walk(h):
                if isinstance(n, ast.Name) and n.id in want:
                    present.setdefault(n.id, set()).add(type(n.ctx).__name__)
            if not present:
                continue
            for v, ctxs in present.items():
                hh = copy.deepcopy(h)
                for n in ast.walk(hh):
                    if isinstance(n, ast.Name):
                        if n.id == v:
                            n.id = "@"
                        elif n.id in locs:
                            n.id = "_"
                text = kind + ":" + ast.dump(hh)
                if "Store" in ctxs or "Del" in ctxs:
                    defs[v].append(text)
                if "Load" in ctxs:
                    uses[v].append(text)
    dg = lambda xs: hashlib.sha1("\n".join(sorted(xs)).encode()).hexdigest()[:10]
    return {v: (dg(defs[v]), dg(uses[v])) for v in want}


def _all_identifiers(fn):
    out = set()
    for n in ast.walk(fn):
        if isinstance(n, ast.Name):
            out.add(n.id)
        elif isinstance(n, ast.arg):
            out.add(n.arg)
        elif isinstance(n, (ast.FunctionDef, ast.AsyncFunctionDef, ast.ClassDef)) and n is not fn:
            out.add(n.name)
        elif isinstance(n, (ast.Global, ast.Nonlocal)):
            out.update(n.names)
        elif isinstance(n, ast.alias):
            out.add((n.asname or n.name).split(".")[0])
        elif isinstance(n, ast.ExceptHandler) and n.name:
            out.add(n.name)
        elif isinstance(n, ast.keyword) and n.arg:
            pass
        elif hasattr(ast, "MatchAs") and isinstance(n, (ast.MatchAs, ast.MatchStar)) and n.name:
            out.add(n.name)
    return out


def _bound_elsewhere(fn, w):
    """is `w` bound by anything but a plain store of fn's own scope?"""
    for n in ast.walk(fn):
        if n is fn:
            continue
        if isinstance(n, SCOPES):
            if isinstance(n, (ast.FunctionDef, ast.AsyncFunctionDef, ast.Lambda)):
                if w in {a.arg for a in ast.walk(n.args) if isinstance(a, ast.arg)}:
                    return True
            if isinstance(n, (ast.FunctionDef, ast.AsyncFunctionDef, ast.ClassDef)) and n.name == w:
                return True
            for x in ast.walk(n):
                if x is not n and isinstance(x, ast.Name) and x.id == w and isinstance(x.ctx, (ast.Store, ast.Del)):
                    return True
        if isinstance(n, (ast.Global, ast.Nonlocal)) and w in n.names:
            return True
        if isinstance(n, ast.alias) and (n.asname or n.name).split(".")[0] == w:
            return True
        if isinstance(n, ast.ExceptHandler) and n.name == w:
            return True
        if hasattr(ast, "MatchAs") and isinstance(n, (ast.MatchAs, ast.MatchStar)) and n.name == w:
            return True
    return False


def _uses_dynamic_scope(fn):
    """can code in fn see its local names by name?  `locals()` / `vars()`, or `eval` / `exec` without an explicit namespace (with one, the
    evaluated text sees that namespace only)"""
    explicit = set()
    for n in ast.walk(fn):
        if isinstance(n, ast.Call) and isinstance(n.func, ast.Name) and n.func.id in ("eval", "exec") and len(n.args) >= 2:
            explicit.add(id(n.func))
    return any(isinstance(n, ast.Name) and n.id in ("locals", "vars", "eval", "exec") and id(n) not in explicit for n in ast.walk(fn))


def rename_locals_back(model, changed, LOCALS):
    """returns [(qualname, new name, pinned name)]"""
    done = []
    for q in sorted(changed):
        pinned = LOCALS.get(q)
        f = model.functions.get(q)
        if not pinned or f is None:
            continue
        fn = f.node
        if not isinstance(fn, (ast.FunctionDef, ast.AsyncFunctionDef)) or _uses_dynamic_scope(fn):
            continue
        ids = _all_identifiers(fn)
        missing = [v for v in pinned if v not in ids]
        if not missing:
            continue
        locs = locals_of(fn)
        unknown = sorted(w for w in locs if w not in pinned and not w.startswith("__") and not _bound_elsewhere(fn, w))
        if not unknown:
            continue
        fps = local_fingerprints(fn, unknown)
        pairs = []
        for key in (lambda fp: tuple(fp), lambda fp: fp[0]):
            left = [w for w in unknown if w not in {p[0] for p in pairs}]
            right = [v for v in missing if v not in {p[1] for p in pairs}]
            by_new, by_old = {}, {}
            for w in left:
                by_new.setdefault(key(fps[w]), []).append(w)
            for v in right:
                by_old.setdefault(key(tuple(pinned[v])), []).append(v)
            for k, ws in by_new.items():
                vs = by_old.get(k, [])
                if len(ws) == 1 and len(vs) == 1:
                    pairs.append((ws[0], vs[0]))
        for w, v in pairs:
            for n in ast.walk(fn):
                if isinstance(n, ast.Name) and n.id == w:
                    n.id = v
            done.append((q, w, v))
    return done


# ------------------------------------------------------------------ a pinned function under a new name
def bag_of(fn) -> set:
    """identifiers, attribute names and short string constants of a function body (what a rename of the function keeps)"""
    out = set()
    bound = {n.id for n in ast.walk(fn) if isinstance(n, ast.Name) and isinstance(n.ctx, (ast.Store, ast.Del))}  # locals may be renamed too
    bound |= {a.arg for a in ast.walk(fn) if isinstance(a, ast.arg)}
    for n in ast.walk(fn):
        if isinstance(n, ast.Name):
            if n.id not in bound:
                out.add(n.id)
        elif isinstance(n, ast.Attribute):
            out.add("." + n.attr)
        elif isinstance(n, ast.Constant) and isinstance(n.value, str) and 0 < len(n.value) < 40:
            out.add("'" + n.value)
    if isinstance(fn, (ast.FunctionDef, ast.AsyncFunctionDef)):
        pol = return_polarity(fn)
        if pol:
            out.add("ret:+" if pol > 0 else "ret:-")
        out.add("retkinds=" + return_kinds(fn))
    return out


def return_polarity(fn) -> int:
    """sign of (#`return True` - #`return False`) in the function's own scope: a predicate that was renamed *and inverted*
    (`_check` -> `_mismatches`) is not the pinned function under a new name"""
    t = f_ = 0
    work = list(fn.body)
    while work:
        n = work.pop()
        if isinstance(n, (ast.FunctionDef, ast.AsyncFunctionDef, ast.Lambda, ast.ClassDef)):
            continue
        if isinstance(n, ast.Return) and isinstance(n.value, ast.Constant) and isinstance(n.value.value, bool):
            if n.value.value:
                t += 1
            else:
                f_ += 1
        work.extend(ast.iter_child_nodes(n))
    return (t > f_) - (t < f_)


def _kind_of_value(v) -> str:
    if v is None or (isinstance(v, ast.Constant) and v.value is None):
        return "None"
    if isinstance(v, ast.Constant):
        return "const:" + type(v.value).__name__
    if isinstance(v, (ast.BoolOp, ast.Compare)) or (isinstance(v, ast.UnaryOp) and isinstance(v.op, ast.Not)):
        return "bool-expr"
    return type(v).__name__


def return_kinds(fn) -> str:
    """the syntactic kinds of what the function returns (a returned local bound once is read through): a helper that used to answer
    a boolean expression and now hands back an object is not the same helper under a new name"""
    kinds = set()
    defs = {}
    for n in ast.walk(fn):
        if isinstance(n, ast.Assign) and len(n.targets) == 1 and isinstance(n.targets[0], ast.Name):
            defs.setdefault(n.targets[0].id, []).append(n.value)
    work = list(fn.body)
    while work:
        n = work.pop()
        if isinstance(n, (ast.FunctionDef, ast.AsyncFunctionDef, ast.Lambda, ast.ClassDef)):
            continue
        if isinstance(n, ast.Return):
            vs = [n.value]
            if isinstance(n.value, ast.Name) and defs.get(n.value.id):
                vs = list(defs[n.value.id])
            for v in vs:
                kinds.add(_kind_of_value(v))
            work.extend(ast.iter_child_nodes(n))
            continue
        work.extend(ast.iter_child_nodes(n))
    return ",".join(sorted(kinds))


def pick_renamed(cands: list, pinned_bag) -> object:
    """cands: new functions with the pinned parameter list.  One candidate: it.  Several: the one whose body resembles the pinned
    body most (Jaccard >= 0.5, strictly ahead of the runner-up); else None."""
    if len(cands) == 1:
        return cands[0]
    if not cands or not pinned_bag:
        return None
    pb = set(pinned_bag)
    scored = []
    for c in cands:
        b = bag_of(c.node)
        scored.append((len(b & pb) / max(1, len(b | pb)), c))
    scored.sort(key=lambda x: -x[0])
    if scored[0][0] >= 0.5 and scored[0][0] > scored[1][0]:
        return scored[0][1]
    return None


# ------------------------------------------------------------------ calling conventions (positional vs keyword)
# positional parameter names of external callables the package calls (from their documented signatures): lets a keyword spelling
# (`patch(target=.., new=..)`, `ast.alias(name=.., asname=..)`) be read like the positional one the pinned tree uses
EXTERNAL_SIGNATURES = {
    "unittest.mock.patch": ["target", "new"],
    "ast.alias": ["name", "asname"],
    "ast.parse": ["source", "filename", "mode"],
    "ast.copy_location": ["new_node", "old_node"],
    "ast.fix_missing_locations": ["node"],
    "importlib.util.cache_from_source": ["path", "debug_override"],
    "importlib.util.decode_source": ["source_bytes"],
    "os.environ.get": ["key", "default"],
    "functools.wraps": ["wrapped"],
    "inspect.signature": ["obj"],
    "inspect.Signature": ["parameters"],
    "inspect.Parameter": ["name", "kind"],
    "jax.tree_util.tree_flatten": ["tree", "is_leaf"],
    "jax.tree_util.tree_leaves": ["tree", "is_leaf"],
    "jax.tree_util.tree_structure": ["tree"],
    "jax.tree_util.tree_unflatten": ["treedef", "leaves"],
    "typing.get_type_hints": ["obj", "globalns", "localns", "include_extras"],
    "warnings.warn": ["message", "category", "stacklevel"],
    "numpy.dtype": ["dtype"],
    "hashlib.md5": ["string"],
}


def _callee_params(model, scope, call):
    """(qualname, [parameter names a caller supplies, in order], set of keyword-only names) of a call that resolves to a package
    function / a package class's __init__, else None"""
    try:
        t = model.resolve_call(scope, call)
    except Exception:
        return None
    target, offset = None, 0
    if t.kind == "func":
        target = t.target
        if target.cls is not None and isinstance(call.func, ast.Attribute):
            decs = {d.id for d in target.decorators if isinstance(d, ast.Name)}
            if "staticmethod" not in decs:
                offset = 1
        elif target.cls is not None and isinstance(call.func, ast.Name):
            offset = 1  # an instance called through __call__
    elif t.kind == "class":
        target = model.lookup_method(t.target, "__init__")
        offset = 1
    elif t.kind == "ext" and isinstance(t.target, str) and t.target in EXTERNAL_SIGNATURES:
        return "ext:" + t.target, list(EXTERNAL_SIGNATURES[t.target]), set(), set()
    if target is None or not isinstance(target.node, (ast.FunctionDef, ast.AsyncFunctionDef)) or target.module.short.startswith("_typeguard"):
        return None
    a = target.node.args
    if a.vararg is not None:
        return None
    pos = [x.arg for x in a.posonlyargs + a.args][offset:]
    return target.qualname, pos, {x.arg for x in a.kwonlyargs}, {x.arg for x in a.posonlyargs}


def call_conventions(model) -> dict:
    """{callee qualname: {param: 'pos' | 'kw'}} for the parameters that every call site of the tree supplies the same way"""
    seen = {}
    scopes = [(f, f.node) for f in model.functions.values() if not f.module.short.startswith("_typeguard")]
    for mod in model.modules.values():
        if not mod.short.startswith("_typeguard"):
            for st in mod.tree.body:
                if not isinstance(st, (ast.FunctionDef, ast.AsyncFunctionDef, ast.ClassDef)):
                    scopes.append((mod, st))
    for f, root in scopes:
        for c in ast.walk(root):
            if not isinstance(c, ast.Call) or any(isinstance(x, ast.Starred) for x in c.args) or any(k.arg is None for k in c.keywords):
                continue
            cp = _callee_params(model, f, c)
            if cp is None:
                continue
            q, pos, kwonly, _po = cp
            if len(c.args) > len(pos):
                continue
            d = seen.setdefault(q, {})
            for p_ in pos[:len(c.args)]:
                d.setdefault(p_, set()).add("pos")
            for k in c.keywords:
                if k.arg in pos:
                    d.setdefault(k.arg, set()).add("kw")
    return {q: {p_: next(iter(v)) for p_, v in d.items() if len(v) == 1} for q, d in seen.items() if any(len(v) == 1 for v in d.values())}


def normalise_call_conventions(model, conv: dict) -> int:
    """Arguments are passed the way the pinned tree passes them: a keyword argument that every pinned call site of the callee passes
    positionally becomes positional (only the first keyword, and only when it is the next parameter: evaluation order is kept), a
    trailing positional argument that every pinned site passes by keyword becomes a keyword.  The identity on the pinned tree."""
    n = 0
    scopes = [(f, f.node) for f in model.functions.values() if not f.module.short.startswith("_typeguard")]
    for mod in model.modules.values():
        if not mod.short.startswith("_typeguard"):
            for st in mod.tree.body:
                if not isinstance(st, (ast.FunctionDef, ast.AsyncFunctionDef, ast.ClassDef)):
                    scopes.append((mod, st))
    for f, root in scopes:
        for c in ast.walk(root):
            if not isinstance(c, ast.Call) or any(isinstance(x, ast.Starred) for x in c.args) or any(k.arg is None for k in c.keywords):
                continue
            cp = _callee_params(model, f, c)
            if cp is None:
                continue
            q, pos, kwonly, posonly = cp
            cv = conv.get(q)
            if not cv or len(c.args) > len(pos):
                continue
            changed = True
            while changed:
                changed = False
                if c.keywords and len(c.args) < len(pos) and c.keywords[0].arg == pos[len(c.args)] and cv.get(c.keywords[0].arg) == "pos":
                    c.args.append(c.keywords.pop(0).value)
                    changed = True
                    n += 1
                elif c.args and pos[len(c.args) - 1] not in posonly and cv.get(pos[len(c.args) - 1]) == "kw" \
                        and not any(k.arg == pos[len(c.args) - 1] for k in c.keywords):
                    v = c.args.pop()
                    c.keywords.insert(0, ast.keyword(arg=pos[len(c.args)], value=v))
                    changed = True
                    n += 1
    return n


# ------------------------------------------------------------------ pinned functions under new names: renamed back
def rename_functions_back(model, FUNCTIONS, SIGNATURES, BAGS) -> list:
    """A pinned function / method / local function that no longer exists, while its container has a new function with the same
    parameter list whose body resembles the pinned body, has been renamed: the definition and every reference to it in the package
    get the pinned name back (only when the pinned name is free wherever it would be written).  Module attribute names of private
    helpers are not behaviour; for the analysis the renamed tree is the same program.  Returns [(new qualname, pinned qualname)]."""
    done = []
    for _round in range(4):
        cur = model.functions
        missing = sorted((q for q in FUNCTIONS if q not in cur and not q.startswith("_typeguard") and "." in q), key=lambda q: (q.count("."), q))
        if not missing:
            break
        new = [f for q, f in cur.items() if q not in FUNCTIONS and not f.module.short.startswith("_typeguard")
               and isinstance(f.node, (ast.FunctionDef, ast.AsyncFunctionDef))]
        taken = set()
        pairs = []
        for q in missing:
            container = q.rsplit(".", 1)[0]
            if container.split(".")[0] not in model.modules:
                continue
            ps = tuple(SIGNATURES.get(q, ()))
            cands = [f for f in new if f.qualname.rsplit(".", 1)[0] == container and tuple(f.params) == ps and f.qualname not in taken]
            if not cands:
                continue
            bag = BAGS.get(q)
            g = None
            if bag:
                pb = set(bag)
                scored = sorted(((len(bag_of(c.node) & pb) / max(1, len(bag_of(c.node) | pb)), c.qualname, c) for c in cands), key=lambda x: (-x[0], x[1]))
                if scored[0][0] >= 0.5 and (len(scored) == 1 or scored[0][0] > scored[1][0]):
                    g = scored[0][2]
            elif len(cands) == 1 and ps:
                g = cands[0]
            if g is not None and bag:
                rk = next((b_ for b_ in bag if b_.startswith("retkinds=")), None)
                if rk is not None and rk != "retkinds=" + return_kinds(g.node):
                    g = None  # returns a different kind of thing: not the pinned function under a new name
            if g is not None and bag and ("ret:+" in bag or "ret:-" in bag):
                pol = return_polarity(g.node)
                if (pol > 0 and "ret:-" in bag) or (pol < 0 and "ret:+" in bag):
                    g = None  # renamed and inverted: a different function
            if g is not None:
                taken.add(g.qualname)
                pairs.append((g, q))
        if not pairs:
            break
        changed = False
        for g, q in pairs:
            old, newn = q.rsplit(".", 1)[1].split("#")[0], g.name
            if old == newn or "#" in q.rsplit(".", 1)[1]:
                continue
            if _rename_function(model, g, newn, old):
                done.append((g.qualname, q))
                changed = True
        if not changed:
            break
        model._reindex()
    return done


def _names_in(tree):
    out = set()
    for n in ast.walk(tree):
        if isinstance(n, ast.Name):
            out.add(n.id)
        elif isinstance(n, ast.Attribute):
            out.add(n.attr)
        elif isinstance(n, (ast.FunctionDef, ast.AsyncFunctionDef, ast.ClassDef)):
            out.add(n.name)
        elif isinstance(n, ast.arg):
            out.add(n.arg)
        elif isinstance(n, ast.alias):
            out.add((n.asname or n.name).split(".")[-1])
            out.add(n.name.split(".")[-1])
    return out


def _rename_function(model, g, newn, old) -> bool:
    mod = g.module
    parent = getattr(g, "parent", None)
    from .model import FuncInfo  # local import: alpha is imported by model

    if isinstance(parent, FuncInfo):
        # a local function: its name is visible in the parent's subtree only
        if old in _names_in(parent.node):
            return False
        g.node.name = old
        for n in ast.walk(parent.node):
            if isinstance(n, ast.Name) and n.id == newn:
                n.id = old
        return True
    if g.cls is not None:
        # a method: `.new` anywhere in the package means this method only if nothing else is called like that
        others = [c for c in model.classes.values() if c is not g.cls and newn in c.methods and g.cls not in getattr(model, "mro")(c)]
        if others:
            return False
        for m2 in model.modules.values():
            if m2.short.startswith("_typeguard"):
                continue
            if old in {n.attr for n in ast.walk(m2.tree) if isinstance(n, ast.Attribute)}:
                return False
        if old in {x.name for x in g.cls.node.body if isinstance(x, (ast.FunctionDef, ast.AsyncFunctionDef))} or old in {n.id for n in ast.walk(g.cls.node) if isinstance(n, ast.Name)}:
            return False
        g.node.name = old
        for m2 in model.modules.values():
            if m2.short.startswith("_typeguard"):
                continue
            for n in ast.walk(m2.tree):
                if isinstance(n, ast.Attribute) and n.attr == newn:
                    n.attr = old
        for st in g.cls.node.body:
            if not isinstance(st, (ast.FunctionDef, ast.AsyncFunctionDef)):
                for n in ast.walk(st):
                    if isinstance(n, ast.Name) and n.id == newn:
                        n.id = old
        return True
    # a module-level function
    affected = [mod]
    for m2 in model.modules.values():
        if m2 is mod or m2.short.startswith("_typeguard"):
            continue
        for st in ast.walk(m2.tree):
            if isinstance(st, ast.ImportFrom) and (st.module or "").split(".")[-1] == mod.short and any(a.name == newn for a in st.names):
                affected.append(m2)
                break
            if isinstance(st, ast.Attribute) and st.attr == newn:
                affected.append(m2)
                break
    for m2 in affected:
        if old in _names_in(m2.tree):
            return False
    g.node.name = old
    for m2 in affected:
        shadowing = set()
        for fn in ast.walk(m2.tree):
            if isinstance(fn, (ast.FunctionDef, ast.AsyncFunctionDef)) and fn is not g.node:
                if newn in {a.arg for a in ast.walk(fn.args) if isinstance(a, ast.arg)}:
                    shadowing |= {id(x) for x in ast.walk(fn)}
        imported_plain = m2 is mod
        for st in ast.walk(m2.tree):
            if isinstance(st, ast.ImportFrom) and (st.module or "").split(".")[-1] == mod.short:
                for a in st.names:
                    if a.name == newn:
                        a.name = old
                        if a.asname is None:
                            imported_plain = True
        for n in ast.walk(m2.tree):
            if isinstance(n, ast.Name) and n.id == newn and imported_plain and id(n) not in shadowing:
                n.id = old
            elif isinstance(n, ast.Attribute) and n.attr == newn and isinstance(n.value, ast.Name) and n.value.id.lstrip("_") == mod.short.lstrip("_"):
                n.attr = old
    return True


# ------------------------------------------------------------------ pinned classes under new names
def class_members(node) -> set:
    out = set()
    for st in node.body:
        if isinstance(st, (ast.FunctionDef, ast.AsyncFunctionDef)):
            out.add(st.name)
        elif isinstance(st, ast.Assign):
            out |= {t.id for t in st.targets if isinstance(t, ast.Name)}
        elif isinstance(st, ast.AnnAssign) and isinstance(st.target, ast.Name):
            out.add(st.target.id)
    return out


def rename_classes_back(model, CLASSES: dict) -> list:
    """A pinned module-level class that no longer exists, while its module has exactly one new class with (nearly) the same members, has
    been renamed: definition, references in the module, imports of it elsewhere get the pinned name back (when that name is free)."""
    done = []
    cur = {q: c for q, c in model.classes.items() if not c.module.short.startswith("_typeguard")}
    missing = [q for q in CLASSES if q not in cur and q.count(".") == 1]
    new = [c for q, c in cur.items() if q not in CLASSES and q.count(".") == 1]
    taken = set()
    import difflib

    # all (pinned class, new class) pairs of one module, best first: members first, then resemblance of the names (several small
    # classes may have exactly the same members: `_NamedDim` / `_NamedVariadicDim`)
    pairs_ = []
    for q in sorted(missing):
        mod, old = q.split(".")
        if mod not in model.modules:
            continue
        pm = set(CLASSES[q])
        for c in new:
            if c.module.short != mod:
                continue
            cm = class_members(c.node)
            if not pm and not cm:
                continue
            sc = len(pm & cm) / max(1, len(pm | cm))
            if sc >= 0.6:
                pairs_.append((sc, difflib.SequenceMatcher(None, old, c.node.name).ratio(), q, c))
    pairs_.sort(key=lambda x: (-x[0], -x[1], x[2], x[3].qualname))
    chosen = {}
    for sc, nr, q, c in pairs_:
        if q in chosen or c.qualname in taken:
            continue
        # ambiguous: another candidate for q (or another pinned class for c) with the same scores
        rivals = [p_ for p_ in pairs_ if (p_[2] == q) != (p_[3] is c) and (p_[2] == q or p_[3] is c) and p_[0] == sc and p_[1] == nr
                  and p_[2] not in chosen and p_[3].qualname not in taken]
        if rivals:
            continue
        chosen[q] = c
        taken.add(c.qualname)
    for q in sorted(chosen):
        mod, old = q.split(".")
        c = chosen[q]
        newn = c.node.name
        affected = [c.module]
        for m2 in model.modules.values():
            if m2 is c.module or m2.short.startswith("_typeguard"):
                continue
            if any(isinstance(st, ast.ImportFrom) and (st.module or "").split(".")[-1] == mod and any(a.name == newn for a in st.names) for st in ast.walk(m2.tree)) \
                    or any(isinstance(n, ast.Attribute) and n.attr == newn for n in ast.walk(m2.tree)):
                affected.append(m2)
        if any(old in _names_in(m2.tree) for m2 in affected):
            continue
        c.node.name = old
        for m2 in affected:
            plain = m2 is c.module
            for st in ast.walk(m2.tree):
                if isinstance(st, ast.ImportFrom) and (st.module or "").split(".")[-1] == mod:
                    for a in st.names:
                        if a.name == newn:
                            a.name = old
                            if a.asname is None:
                                plain = True
            for n in ast.walk(m2.tree):
                if isinstance(n, ast.Name) and n.id == newn and plain:
                    n.id = old
                elif isinstance(n, ast.Attribute) and n.attr == newn:
                    n.attr = old
        done.append((f"{mod}.{newn}", q))
    if done:
        model._reindex()
    return done


# ------------------------------------------------------------------ parameters under new names
def rename_params_back(model, changed, SIGNATURES) -> list:
    """A pinned function whose parameter list has the pinned length but other names at some positions: when the new name is never
    used as a keyword in a call anywhere in the package (so callers are unaffected) and the pinned name occurs nowhere in the function,
    the parameter gets its pinned name back (alpha-renaming of a parameter that is only passed positionally)."""
    kw_used = set()
    for mod in model.modules.values():
        if mod.short.startswith("_typeguard"):
            continue
        for n in ast.walk(mod.tree):
            if isinstance(n, ast.keyword) and n.arg:
                kw_used.add(n.arg)
    done = []
    for q in sorted(changed):
        f = model.functions.get(q)
        ps = SIGNATURES.get(q)
        if f is None or ps is None or not isinstance(f.node, (ast.FunctionDef, ast.AsyncFunctionDef)) or _uses_dynamic_scope(f.node):
            continue
        a = f.node.args
        if a.vararg or a.kwarg:
            continue
        cur = [x for x in a.posonlyargs + a.args + a.kwonlyargs]
        if len(cur) != len(ps):
            continue
        kwonly = {x.arg for x in a.kwonlyargs}
        ids = _all_identifiers(f.node)
        for arg_, old in zip(cur, ps):
            new = arg_.arg
            if new == old or new in kwonly or new in kw_used or old in ids:
                continue
            if _bound_elsewhere(f.node, new) or any(isinstance(n, ast.Name) and n.id == new and isinstance(n.ctx, (ast.Store, ast.Del)) for n in ast.walk(f.node)):
                continue
            arg_.arg = old
            for n in ast.walk(f.node):
                if isinstance(n, ast.Name) and n.id == new:
                    n.id = old
            ids.add(old)
            done.append((q, new, old))
    return done


# --------------------------------------------------------------------------------------------- moved functions
def _module_level_defs(mod):
    return {st.name: st for st in mod.tree.body if isinstance(st, (ast.FunctionDef, ast.AsyncFunctionDef))}


def _module_bindings(mod) -> dict:
    """name -> the top-level statement that binds it (imports, defs, classes, plain assignments; also under `if` / `try` at top level)."""
    out = {}

    def rec(stmts):
        for st in stmts:
            if isinstance(st, (ast.Import, ast.ImportFrom)):
                for a in st.names:
                    out.setdefault((a.asname or a.name).split(".")[0], st)
            elif isinstance(st, (ast.FunctionDef, ast.AsyncFunctionDef, ast.ClassDef)):
                out.setdefault(st.name, st)
            elif isinstance(st, (ast.Assign, ast.AnnAssign)):
                for t in (st.targets if isinstance(st, ast.Assign) else [st.target]):
                    for x in ast.walk(t):
                        if isinstance(x, ast.Name):
                            out.setdefault(x.id, st)
            elif isinstance(st, (ast.If, ast.Try)):
                rec(st.body)
                rec(getattr(st, "orelse", []))
                for h in getattr(st, "handlers", []):
                    rec(h.body)
    rec(mod.tree.body)
    return out


def _free_globals(fn_node) -> set:
    import builtins
    import symtable  # noqa: F401  (not used: scoping is approximated below)

    bound = {a.arg for a in ast.walk(fn_node.args) if isinstance(a, ast.arg)}
    for n in ast.walk(fn_node):
        if isinstance(n, ast.Name) and isinstance(n.ctx, (ast.Store, ast.Del)):
            bound.add(n.id)
        elif isinstance(n, (ast.FunctionDef, ast.AsyncFunctionDef, ast.ClassDef)) and n is not fn_node:
            bound.add(n.name)
        elif isinstance(n, ast.arg):
            bound.add(n.arg)
        elif isinstance(n, ast.ExceptHandler) and n.name:
            bound.add(n.name)
        elif isinstance(n, (ast.Import, ast.ImportFrom)):
            for a in n.names:
                bound.add((a.asname or a.name).split(".")[0])
    return {n.id for n in ast.walk(fn_node) if isinstance(n, ast.Name) and isinstance(n.ctx, ast.Load) and n.id not in bound and not hasattr(builtins, n.id)}


def move_functions_back(model, FUNCTIONS, SIGNATURES, BAGS) -> list:
    """A pinned module-level function `A.f` that is gone from A while another module B of the package defines a module-level `f` with the
    pinned parameter list and a resembling body, and A imports `f` from B: the function was *moved*.  For the analysis the definition goes
    back to A (where every rule looks for it): the def is taken out of B, A's import of it is dropped, modules that imported it from B import
    it from A.  Only when every global the body reads means the same thing in A (bound there by an equal import statement, or importable
    from B by the import that is added).  Also: a pinned method that became a module-level function of the same module (first parameter =
    the receiver) and a pinned module-level function that became a @staticmethod go back to where they were.  Returns [(from, to)]."""
    done = []
    mods = {k: v for k, v in model.modules.items() if not k.startswith("_typeguard")}
    cur = model.functions
    missing = [q for q in FUNCTIONS if q not in cur and not q.startswith("_typeguard") and "<locals>" not in q and "#" not in q]
    for q in sorted(missing):
        parts = q.split(".")
        ps = tuple(SIGNATURES.get(q, ()))
        bag = set(BAGS.get(q) or ())
        if parts[0] not in mods:
            continue
        A = mods[parts[0]]

        def resembles(node):
            if not bag:
                return True
            b = bag_of(node)
            return len(b & bag) / max(1, len(b | bag)) >= 0.5

        if len(parts) == 2:
            name = parts[1]
            # (1) moved to another module
            moved = False
            for bname, B in sorted(mods.items()):
                if B is A:
                    continue
                d = _module_level_defs(B).get(name)
                if d is None or not ps or tuple(a.arg for a in d.args.posonlyargs + d.args.args) != ps[:len(d.args.posonlyargs + d.args.args)] or not resembles(d):
                    continue
                imp = None
                for st in ast.walk(A.tree):
                    if isinstance(st, ast.ImportFrom) and st.level == 1 and st.module == bname and any(a.name == name and a.asname in (None, name) for a in st.names):
                        imp = st
                if imp is None:
                    continue
                ab, bb = _module_bindings(A), _module_bindings(B)
                need_imports, ok = [], True
                for g in sorted(_free_globals(d)):
                    if g == name:
                        continue
                    sb = bb.get(g)
                    sa = ab.get(g)
                    if sb is None:
                        ok = False
                        break
                    if sa is not None and ast.dump(sa) == ast.dump(sb):
                        continue  # bound by the same statement in both modules (the same import / the same optional-import block)
                    if sa is not None and isinstance(sa, (ast.Import, ast.ImportFrom)) and isinstance(sb, (ast.Import, ast.ImportFrom)) and \
                            {(a.name, a.asname) for a in sa.names if (a.asname or a.name).split(".")[0] == g} == {(a.name, a.asname) for a in sb.names if (a.asname or a.name).split(".")[0] == g} \
                            and getattr(sa, "module", None) == getattr(sb, "module", None) and getattr(sa, "level", 0) == getattr(sb, "level", 0):
                        continue
                    if sa is None and isinstance(sb, (ast.Import, ast.ImportFrom)) and not (isinstance(sb, ast.ImportFrom) and sb.level == 1 and sb.module == parts[0]):
                        need_imports.append(sb)
                        continue
                    if sa is None and isinstance(sb, (ast.FunctionDef, ast.AsyncFunctionDef, ast.ClassDef, ast.Assign, ast.AnnAssign)):
                        # a B-level definition the body reads: stays in B, A imports it (no cycle problem for the analysis)
                        need_imports.append(ast.ImportFrom(module=bname, names=[ast.alias(name=g, asname=None)], level=1))
                        continue
                    ok = False
                    break
                if not ok:
                    continue
                # do it
                B.tree.body = [st for st in B.tree.body if st is not d]
                keep = [a for a in imp.names if a.name != name]
                for parent in ast.walk(A.tree):
                    for fld in ("body", "orelse", "finalbody"):
                        blk = getattr(parent, fld, None)
                        if isinstance(blk, list) and any(x is imp for x in blk):
                            i = next(k for k, x in enumerate(blk) if x is imp)
                            new = ([imp] if keep else []) + [ast.copy_location(copy.deepcopy(x), imp) for x in need_imports]
                            if parent is A.tree:
                                new = new + [d]
                            blk[i:i + 1] = new or ([ast.copy_location(ast.Pass(), imp)] if parent is not A.tree else [])
                            if parent is not A.tree:
                                A.tree.body.append(d)
                imp.names = keep or imp.names
                # B (and every other module) that still reads the name gets it from A
                for cname, C in mods.items():
                    if C is A:
                        continue
                    for st in ast.walk(C.tree):
                        if isinstance(st, ast.ImportFrom) and st.level == 1 and st.module == bname and any(a.name == name for a in st.names):
                            if len(st.names) == 1:
                                st.module = parts[0]
                            else:
                                st.names = [a for a in st.names if a.name != name]
                                C.tree.body.insert(0, ast.copy_location(ast.ImportFrom(module=parts[0], names=[ast.alias(name=name, asname=None)], level=1), st))
                uses_in_b = any(isinstance(x, ast.Name) and x.id == name for x in ast.walk(B.tree))
                if uses_in_b and not any(isinstance(st, ast.ImportFrom) and st.module == parts[0] and any(a.name == name for a in st.names) for st in ast.walk(B.tree)):
                    B.tree.body.insert(0, ast.ImportFrom(module=parts[0], names=[ast.alias(name=name, asname=None)], level=1))
                for t_ in (A.tree, B.tree):
                    ast.fix_missing_locations(t_)
                done.append((f"{bname}.{name}", q))
                moved = True
                break
            if moved:
                continue
            # (3) became a @staticmethod of a class of the same module
            for st in A.tree.body:
                if not isinstance(st, ast.ClassDef):
                    continue
                for d in list(st.body):
                    if isinstance(d, ast.FunctionDef) and d.name == name and any(norm_name(x) == "staticmethod" for x in d.decorator_list) \
                            and tuple(a.arg for a in d.args.posonlyargs + d.args.args) == ps and resembles(d):
                        if name in _module_bindings(A):
                            continue
                        st.body = [x for x in st.body if x is not d] or [ast.Pass()]
                        d.decorator_list = [x for x in d.decorator_list if norm_name(x) != "staticmethod"]
                        A.tree.body.insert(A.tree.body.index(st), d)
                        kname = st.name
                        for cname, C in mods.items():
                            for n in ast.walk(C.tree):
                                if isinstance(n, ast.Call) and isinstance(n.func, ast.Attribute) and n.func.attr == name and isinstance(n.func.value, ast.Name) \
                                        and n.func.value.id in (kname, "cls", "self", "mcs"):
                                    if C is A:
                                        n.func = ast.copy_location(ast.Name(id=name, ctx=ast.Load()), n.func)
                        ast.fix_missing_locations(A.tree)
                        done.append((f"{parts[0]}.{kname}.{name}", q))
        elif len(parts) == 3:
            # (2) a method that became a module-level function of the same module
            kname, name = parts[1], parts[2]
            K = next((st for st in A.tree.body if isinstance(st, ast.ClassDef) and st.name == kname), None)
            if K is None or any(isinstance(x, ast.FunctionDef) and x.name == name for x in K.body) or not ps or name.startswith("__"):
                continue
            cands = [d for d in _module_level_defs(A).values() if d.name.lstrip("_") == name.lstrip("_") and len(d.args.posonlyargs + d.args.args) == len(ps)
                     and tuple(a.arg for a in d.args.posonlyargs + d.args.args)[1:] == ps[1:] and not d.decorator_list and resembles(d)]
            if len(cands) != 1:
                continue
            d = cands[0]
            gname = d.name
            calls = [n for C in mods.values() for n in ast.walk(C.tree) if isinstance(n, ast.Call) and isinstance(n.func, ast.Name) and n.func.id == gname]
            other_refs = [n for C in mods.values() for n in ast.walk(C.tree) if isinstance(n, ast.Name) and n.id == gname and not any(n is c.func for c in calls)]
            if other_refs or not calls or any(not c.args or isinstance(c.args[0], ast.Starred) for c in calls) or any(
                    n is not d and isinstance(n, ast.Call) and isinstance(n.func, ast.Name) and n.func.id == gname and not any(n is x for x in ast.walk(A.tree)) for C in mods.values() for n in ast.walk(C.tree)):
                continue
            first = d.args.posonlyargs[0] if d.args.posonlyargs else d.args.args[0]
            if first.arg != ps[0] and not any(isinstance(x, ast.Name) and x.id == ps[0] for x in ast.walk(d)):
                old_first = first.arg
                first.arg = ps[0]
                for x in ast.walk(d):
                    if isinstance(x, ast.Name) and x.id == old_first:
                        x.id = ps[0]
            elif first.arg != ps[0]:
                continue
            A.tree.body = [st for st in A.tree.body if st is not d]
            d.name = name
            K.body.append(d)
            for c in calls:
                recv = c.args[0]
                c.func = ast.copy_location(ast.Attribute(value=recv, attr=name, ctx=ast.Load()), c.func)
                c.args = c.args[1:]
            ast.fix_missing_locations(A.tree)
            done.append((f"{parts[0]}.{gname}", q))
    if done:
        model._reindex()
    return done


def norm_name(e) -> str:
    try:
        return ast.unparse(e)
    except Exception:  # noqa: BLE001
        return ""
