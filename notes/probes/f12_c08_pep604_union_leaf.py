"""F12 (C08): `PyTree[int | str]` -- a PEP 604 union as leaf type -- accepts every value.

The vendored typeguard's `check_type` dispatches on `__origin__` / `isclass` / TypeVar / NewType; a `types.UnionType`
(`int | str` on Python >= 3.10) has no `__origin__` and is not a class, so no branch fires and the value is accepted.
`jaxtyping` itself treats `types.UnionType` as a union (`_array_types._union_types`).  Because `int | str ==
Union[int, str]` and `PyTree.__getitem__` is `lru_cache`d, subscripting the PEP 604 spelling first also makes the
`typing.Union` spelling accept everything for the rest of the process.

Run from outside the repository root:  /venv/bin/python notes/probes/f12_c08_pep604_union_leaf.py
exit 0 = property holds, exit 1 = defect present.
"""
import sys
from typing import Union

import numpy as np

from jaxtyping import Float, PyTree

bad = []
if isinstance([1.5], PyTree[int | str]):
    bad.append("PyTree[int | str] accepted [1.5]")
if isinstance([object()], PyTree[int | str]):
    bad.append("PyTree[int | str] accepted [object()]")
if isinstance(["x"], PyTree[Float[np.ndarray, "a"] | int]):
    bad.append("PyTree[Float[ndarray, 'a'] | int] accepted ['x']")
if not isinstance([1, "a", (2, "b")], PyTree[int | str]):
    bad.append("PyTree[int | str] rejected a tree of ints and strs")
if isinstance([1.5], PyTree[Union[int, str]]):
    bad.append("PyTree[Union[int, str]] accepted [1.5] (after the PEP 604 spelling was subscripted)")
for b in bad:
    print("VIOLATION", b)
print("ok" if not bad else f"{len(bad)} violation(s)")
sys.exit(1 if bad else 0)
