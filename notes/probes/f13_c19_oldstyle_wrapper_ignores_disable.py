"""Probe (not part of any check): with checking switched off, a function decorated with `jaxtyped(typechecker=None)` (the
old-style wrapper) does not behave like the undecorated function: the wrapper still opens a binding context, so manual isinstance
checks in the body are tied together, and it still decorates exceptions raised by the body with a note.
Run:  /venv/bin/python notes/probes/f13_c19_oldstyle_wrapper_ignores_disable.py   (exit 0 = behaves like plain code)"""
import sys
import numpy as np
import jaxtyping
from jaxtyping import Float, jaxtyped, config


def plain(x, y):
    return isinstance(x, Float[np.ndarray, "n"]) and isinstance(y, Float[np.ndarray, "n"])


decorated = jaxtyped(typechecker=None)(plain)


def boom(x):
    isinstance(x, Float[np.ndarray, "n"])
    raise RuntimeError("from the body")


boom_decorated = jaxtyped(typechecker=None)(boom)

config.update("jaxtyping_disable", True)
x, y = np.zeros(3), np.zeros(4)
problems = []
if plain(x, y) != decorated(x, y):
    problems.append(f"result differs: plain -> {plain(x, y)}, decorated -> {decorated(x, y)}")
notes = []
for f in (boom, boom_decorated):
    try:
        f(x)
    except RuntimeError as e:
        notes.append(getattr(e, "__notes__", None))
if notes[0] != notes[1]:
    problems.append(f"exception differs: plain notes {notes[0]!r}, decorated notes {str(notes[1])[:80]!r}")
print(jaxtyping.__file__)
for p in problems:
    print("DIFFERENCE:", p)
sys.exit(1 if problems else 0)
