"""F10 (C20): cloudpickle pickles the dynamically created annotation classes *by value* (it does
not consult copyreg for classes), so the class dictionary goes on the wire -- including the
module-level `object()` sentinels (`_any_dtype` in `dtypes`, `_anonymous_dim` /
`_anonymous_variadic_dim` in `dims`), which come back as different objects: identity tests fail.
In-process, cloudpickle re-uses the existing class and overwrites its attributes, which breaks the
ORIGINAL annotation ("serialising or loading never changes what the original accepts")."""
import sys
import numpy as np
import cloudpickle
from jaxtyping import Float, Shaped

x = np.zeros((2, 3), dtype=np.float32)
problems = []

ann = Shaped[np.ndarray, "a b"]
assert isinstance(x, ann)
try:
    back = cloudpickle.loads(cloudpickle.dumps(ann))
    ok_back = isinstance(x, back)
except Exception as e:
    ok_back = f"{type(e).__name__}: {e}"
try:
    ok_orig = isinstance(x, ann)
except Exception as e:
    ok_orig = f"{type(e).__name__}: {e}"
print("Shaped[ndarray,'a b']: copy accepts:", ok_back, "| original still accepts:", ok_orig)
if ok_back is not True: problems.append("copy of Shaped[...] broken")
if ok_orig is not True: problems.append("ORIGINAL Shaped[...] broken by loading a copy")

ann2 = Float[np.ndarray, "_ b"]
assert isinstance(x, ann2)
try:
    back2 = cloudpickle.loads(cloudpickle.dumps(ann2))
    ok2 = isinstance(x, back2)
except Exception as e:
    ok2 = f"{type(e).__name__}: {e}"
try:
    ok2o = isinstance(x, ann2)
except Exception as e:
    ok2o = f"{type(e).__name__}: {e}"
print("Float[ndarray,'_ b']: copy accepts:", ok2, "| original still accepts:", ok2o)
if ok2 is not True: problems.append("copy of Float[..., '_ b'] broken")
if ok2o is not True: problems.append("ORIGINAL Float[..., '_ b'] broken")
assert not problems, "F10: " + "; ".join(problems)
print("ok")
