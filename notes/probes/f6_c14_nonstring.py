"""F6 (C14): a non-string dim specification must be rejected with ValueError when the
annotation is built; Float[np.ndarray, 3] raises AttributeError ('int' has no attribute 'strip')."""
import numpy as np
from jaxtyping import Float
for spec in (3, None, ("a", "b"), 2.5, b"a"):
    try:
        Float[np.ndarray, spec]
        raise SystemExit(f"accepted {spec!r}")
    except ValueError:
        pass
    except Exception as e:
        raise SystemExit(f"F6: {spec!r} -> {type(e).__name__}: {e}")
print("ok")
