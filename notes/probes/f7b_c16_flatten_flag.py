"""F7b (C16/C12): a nested PyTree check resets the flatten-mode flag of the outer flatten, so a
'?' axis in a union next to a PyTree arm raises AnnotationError on a valid tree."""
import numpy as np
from typing import Union
from jaxtyping import PyTree, Shaped, jaxtyped, AnnotationError

ann = PyTree[Union[PyTree[int], Shaped[np.ndarray, "?foo"]], "T"]
tree = (np.zeros(3), np.zeros(4))
with jaxtyped("context"):
    try:
        print("verdict:", isinstance(tree, ann))
    except AnnotationError as e:
        print("AnnotationError on a valid tree:", str(e)[:60])
        raise SystemExit(1)
print("ok")
