"""F1 (C04): a BaseException raised by user code during a check leaves partial bindings.
Hand-written reproduction against the real code; not part of any check."""
import numpy as np
from jaxtyping import Float, jaxtyped
from jaxtyping._storage import get_shape_memo


class Boom:
    def __format__(self, spec):
        raise KeyboardInterrupt


with jaxtyped("context"):
    import jaxtyping._storage as st
    st._shape_storage.memo_stack[-1][3]["v"] = Boom()   # an {argument} whose formatting raises
    before = {k: dict(v) for k, v in zip("svpa", get_shape_memo())}
    try:
        isinstance(np.zeros((3, 4)), Float[np.ndarray, "a {v}"])
    except KeyboardInterrupt:
        pass
    after = get_shape_memo()
    print("single memo after raising check:", after[0])
    assert after[0] == {}, "F1: binding a=3 survived a check that raised"
print("ok")
