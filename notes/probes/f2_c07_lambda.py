"""F2 (C07): jaxtyped(lambda ..., typechecker=...) fails: the lambda's __name__ '<lambda>' is
interpolated into the generated `def <name>(...)`."""
from beartype import beartype
from jaxtyping import jaxtyped
f = jaxtyped(lambda x: x, typechecker=beartype)
assert f(3) == 3
g = jaxtyped(lambda x, *, T0=1, default0=2: x, typechecker=beartype)
assert g(5) == 5 and g.__name__ == "<lambda>"
print("ok")
