"""F4 (C12): old-style decoration of a generator function marks the shared annotation object
as transparent: afterwards isinstance(anything, Vec) is True process-wide."""
import warnings
from typing import Iterator
import numpy as np
from jaxtyping import Float, jaxtyped

Vec = Float[np.ndarray, "n"]
before = isinstance("a string", Vec)

with warnings.catch_warnings():
    warnings.simplefilter("ignore")
    @jaxtyped
    def gen(n: int) -> Iterator[Vec]:
        yield np.zeros(n)

after = isinstance("a string", Vec)
print("isinstance('a string', Vec) before/after decorating an unrelated generator:", before, after)
assert before == after, "F4: verdict changed by decorating another function"
