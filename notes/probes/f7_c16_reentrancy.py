"""F7 (C16/C12): flag handling in PyTree._check is not re-entrant.
(a) a structure-less PyTree nested in a structured one clears the '?' label of the outer one;
(b) a nested _check resets the flatten-mode flag of the outer flatten.
Hand-written reproduction; not part of any check."""
import numpy as np
from jaxtyping import PyTree, Shaped, jaxtyped, AnnotationError
from jaxtyping._storage import get_treeflatten_memo

# (a) '?' inside a structure-less PyTree inside exactly one structured PyTree -> must be usable
ann = PyTree[PyTree[Shaped[np.ndarray, "?foo"]], "T"]
tree = (np.zeros(3), np.zeros(3))
with jaxtyped("context"):
    try:
        ok = isinstance(tree, ann)
        print("(a) verdict:", ok)
        a_ok = ok is True
    except AnnotationError as e:
        print("(a) AnnotationError on a valid tree:", str(e)[:70])
        a_ok = False

# (b) observe the flatten flag from a leaf's __instancecheck__ during the OUTER flatten
seen = []
class Meta(type):
    def __instancecheck__(cls, obj):
        seen.append(get_treeflatten_memo())
        return isinstance(obj, int)
class Probe(metaclass=Meta):
    pass

from typing import Union
inner = PyTree[int]
outer = PyTree[Union[inner, Probe]]
# outer flatten calls is_leaf on each node: first arm (inner PyTree) runs a nested _check that resets the flag;
# the second arm then sees the flag
isinstance([1, "x", 2], outer)
print("(b) flatten-mode flag seen by leaf checks during the outer flatten:", seen[:6])
b_ok = all(seen[:1]) and True
# during the outer flatten every leaf check should see the flag set (True)
b_ok = all(s is True for s in seen[: max(1, len(seen) // 2)])
assert a_ok, "F7a"
assert b_ok, "F7b"
print("ok")
