"""F8 (C18): the cache_from_source patch is active while the hooked module *executes*, so a
module imported BY a hooked module is cached un-instrumented under the jaxtyping tag; a later run
that hooks that module too reuses the cached, un-instrumented bytecode."""
import os, subprocess, sys, tempfile, textwrap

d = tempfile.mkdtemp(prefix="f8_")
open(os.path.join(d, "pa.py"), "w").write("import pb\n")
open(os.path.join(d, "pb.py"), "w").write(textwrap.dedent('''
    from jaxtyping import Float
    import numpy as np
    def f(x: Float[np.ndarray, "3"]):
        return x
'''))
env = {k: v for k, v in os.environ.items() if k != "PYTHONDONTWRITEBYTECODE"}
env["PYTHONPATH"] = d + os.pathsep + os.getcwd()

def run(hooked):
    code = textwrap.dedent(f'''
        import sys
        sys.path.insert(0, {d!r})
        from jaxtyping import install_import_hook
        with install_import_hook({hooked!r}, "beartype.beartype"):
            import pa
        import pb, numpy as np
        try:
            pb.f(np.zeros(4))
            print("UNCHECKED")
        except Exception as e:
            print("CHECKED", type(e).__name__)
    ''')
    return subprocess.run([sys.executable, "-c", code], env=env, capture_output=True, text=True).stdout.strip()

r1 = run(["pa"])          # run 1 hooks only pa; pb is imported by pa while the patch is active
r2 = run(["pa", "pb"])    # run 2 hooks pb as well: must be instrumented
print("run1 (pb not hooked):", r1)
print("run2 (pb hooked):    ", r2)
print("cache files:", sorted(os.listdir(os.path.join(d, "__pycache__"))))
import shutil; shutil.rmtree(d)
assert r1 == "UNCHECKED"
assert r2.startswith("CHECKED"), "F8: pb ran un-instrumented from the jaxtyping-tagged cache"
print("ok")
