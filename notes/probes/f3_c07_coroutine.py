"""F3 (C07): a well-typed coroutine function decorated with jaxtyped(typechecker=...) is rejected:
the return annotation is checked against the coroutine object."""
import asyncio
import numpy as np
from beartype import beartype
from jaxtyping import Float, jaxtyped

@jaxtyped(typechecker=beartype)
async def f(x: Float[np.ndarray, "a"]) -> Float[np.ndarray, "a"]:
    return x

out = asyncio.run(f(np.zeros(3)))
assert out.shape == (3,)
print("ok")
