"""F9 (C20): a nested annotation Shaped[Float[A,'a'],'b'] comes back from pickle/deepcopy accepting
other dtypes: the reducer rebuilds x.dtype[x.array_type, x.dim_str] = Shaped[A, 'b a']."""
import copy, pickle
import numpy as np
from jaxtyping import Float, Shaped

ann = Shaped[Float[np.ndarray, "a"], "b"]
x_int = np.zeros((2, 3), dtype=np.int32)
x_flt = np.zeros((2, 3), dtype=np.float32)
assert isinstance(x_flt, ann) and not isinstance(x_int, ann)
for name, back in (("pickle", pickle.loads(pickle.dumps(ann))), ("deepcopy", copy.deepcopy(ann))):
    print(name, "-> accepts int32:", isinstance(x_int, back), "dtypes:", back.dtypes == ann.dtypes)
    assert isinstance(x_flt, back)
    assert not isinstance(x_int, back), f"F9: {name} copy accepts int32"
print("ok")
