"""F5 (C13): the bindings listed in a TypeCheckError come from the dicts captured at push time;
every rollback replaces the stack top with the snapshots, so the message (a) lists a binding made
by the check that failed and (b) misses bindings made after a rollback."""
import numpy as np
from typing import Union
from beartype import beartype
from jaxtyping import Float, Int, jaxtyped, TypeCheckError

# (a) y's check binds c=7 before failing on d (a=3 expected): c=7 must not be reported
@jaxtyped(typechecker=beartype)
def f(x: Float[np.ndarray, "a"], y: Float[np.ndarray, "c a"]):
    pass

try:
    f(np.zeros(3), np.zeros((7, 4)))
    raise SystemExit("no error?")
except TypeCheckError as e:
    msg = str(e)
print("---- (a)\n", msg[-160:])
a_ok = "c=7" not in msg and "a=3" in msg

# (b) union whose first arm fails in the shape check (rollback), then a=3 and b=5 are bound, then w
# fails: a=3 and b=5 must be reported (typeguard tries the union members in order)
from jaxtyping._typeguard import typechecked
@jaxtyped(typechecker=typechecked)
def g(x: Union[Float[np.ndarray, "q q"], Float[np.ndarray, "a"]], z: Float[np.ndarray, "b"], w: Float[np.ndarray, "a"]):
    pass

try:
    g(np.zeros(3), np.zeros(5), np.zeros(4))
    raise SystemExit("no error?")
except TypeCheckError as e:
    msg = str(e)
print("---- (b)\n", msg[-200:])
b_ok = "b=5" in msg and "a=3" in msg
assert a_ok, "F5a: message lists a binding taken from the failed check"
assert b_ok, "F5b: message misses bindings in force"
print("ok")
