"""F11 (C07): the old double-decorator wrapper (`@jaxtyped @typechecker`) adds a PEP 678 note to every
exception that leaves the body.  When the exception's class forbids setting attributes (a frozen
dataclass exception, a class with a refusing __setattr__), `add_note` raises and that error
*replaces* the exception raised by the user's function: the caller no longer gets 'the very same
exception'.  Run from a jaxtyping checkout: exits 0 when the body's exception comes back."""
import dataclasses
import os
import sys
import warnings

sys.path.insert(0, os.getcwd())
warnings.simplefilter("ignore")
import numpy as np  # noqa: E402
from beartype import beartype  # noqa: E402

from jaxtyping import Float, jaxtyped  # noqa: E402


@dataclasses.dataclass(frozen=True)
class Boom(Exception):
    code: int = 1


@jaxtyped
@beartype
def f(x: Float[np.ndarray, "n"]):
    raise Boom(3)


try:
    f(np.zeros(3, dtype=np.float32))
except Boom:
    print("ok: the body's exception came back")
    sys.exit(0)
except Exception as e:  # noqa: BLE001
    print("DEFECT: the body raised Boom(3), the caller got", type(e).__name__, e)
    sys.exit(1)
