import os, sys; sys.path.insert(0, os.getcwd())

# C19: with checking switched off, a *hooked module* behaves exactly like the
# undecorated code, for every input; switching back on restores checking without
# re-importing.
#
# Scenario: the same source file is imported twice, once plainly and once through
# `install_import_hook(..., typechecker=None)` (the documented "only `jaxtyped`, no
# typechecker" mode), and both copies are exercised with checking switched off.

import importlib
import pathlib
import tempfile

sys.dont_write_bytecode = True

import numpy as np

import jaxtyping
from jaxtyping import config, install_import_hook

assert os.path.abspath(jaxtyping.__file__).startswith(os.getcwd() + os.sep), (
    jaxtyping.__file__
)

SOURCE = '''
import numpy as np
from jaxtyping import Float


def same_length(x, y):
    """Manual isinstance checks in the body; the axis name `n` is shared."""
    ok_x = isinstance(x, Float[np.ndarray, "n"])
    ok_y = isinstance(y, Float[np.ndarray, "n"])
    return ok_x, ok_y


def scale(x, factor):
    assert isinstance(x, Float[np.ndarray, "n"])
    if factor == 0:
        raise ZeroDivisionError("factor must be non-zero")
    return x / factor
'''


def outcome(fn, *args, **kwargs):
    """Everything observable about a call: its result, or its exception (type,
    message and notes)."""
    try:
        out = fn(*args, **kwargs)
    except Exception as e:
        return ("raised", type(e).__name__, str(e), tuple(getattr(e, "__notes__", ())))
    else:
        if isinstance(out, np.ndarray):
            out = out.tolist()
        return ("returned", out)


with tempfile.TemporaryDirectory() as tmp:
    tmp = pathlib.Path(tmp)
    (tmp / "c19e_plain_mod.py").write_text(SOURCE)
    (tmp / "c19e_hooked_mod.py").write_text(SOURCE)
    sys.path.insert(0, str(tmp))
    importlib.invalidate_caches()
    try:
        import c19e_plain_mod as plain

        with install_import_hook("c19e_hooked_mod", None):
            import c19e_hooked_mod as hooked
    finally:
        sys.path.remove(str(tmp))

a2 = np.zeros(2)
a3 = np.ones(3)

# Sanity: the hook really did instrument the module. With checking on, both
# `isinstance` checks happen in the function's dynamic context, so `n` cannot be both 2
# and 3. (In the plain module each `isinstance` stands on its own.)
assert config.jaxtyping_disable is False
assert hooked.same_length is not plain.same_length
assert outcome(plain.same_length, a2, a3) == ("returned", (True, True))
assert outcome(hooked.same_length, a2, a3) == ("returned", (True, False))

# Now switch checking off: the hooked module must be indistinguishable from the plain
# one.
config.update("jaxtyping_disable", "TRUE")
calls = [
    (lambda m: m.same_length, (a2, a3), {}),  # inconsistent axis sizes
    (lambda m: m.same_length, (a2, a2), {}),
    (lambda m: m.scale, (a3, 0), {}),  # exception after a successful binding
    (lambda m: m.scale, (a3, 2), {}),
    (lambda m: m.scale, ("not an array", 2), {}),  # ill-typed
]
for get, args, kwargs in calls:
    want = outcome(get(plain), *args, **kwargs)
    got = outcome(get(hooked), *args, **kwargs)
    assert got == want, (
        "hooked module differs from plain code although checking is switched off:\n"
        f"  plain : {want}\n  hooked: {got}"
    )

# Switching back on restores the instrumented behaviour without re-importing.
config.update("jaxtyping_disable", False)
assert outcome(hooked.same_length, a2, a3) == ("returned", (True, False))

print("OK")
