"""Design-support data (round 0): catalogue of seeded property-breaking edits of /repo,
each a (file, old, new) string edit that still compiles. Surveyed on 2026-10-03 against the
unedited suite (see seed_survey.md). Not used by any check yet; the self-validation of
round 1 will re-express these as AST-level edits."""
A='jaxtyping/_array_types.py'; P='jaxtyping/_pytree_type.py'; S='jaxtyping/_storage.py'; D='jaxtyping/_decorator.py'; H='jaxtyping/_import_hook.py'; C='jaxtyping/_config.py'
SEEDS = {
 'S01_C04_array_no_restore_on_fail': (A, """        else:
            set_shape_memo(
                single_memo_bak, variadic_memo_bak, pytree_memo_bak, arg_memo_bak
            )
            return check""", """        else:
            return check"""),
 'S02_C04_pytree_no_restore_on_fail': (P, """        else:
            set_shape_memo(
                single_memo_bak, variadic_memo_bak, pytree_memo_bak, arg_memo_bak
            )
            return False""", """        else:
            return False"""),
 'S03_C04_alias_backup': (A, "        single_memo_bak = single_memo.copy()\n        variadic_memo_bak = variadic_memo.copy()\n        pytree_memo_bak = pytree_memo.copy()\n        arg_memo_bak = arg_memo.copy()\n        try:\n            check",
                             "        single_memo_bak = single_memo\n        variadic_memo_bak = variadic_memo.copy()\n        pytree_memo_bak = pytree_memo.copy()\n        arg_memo_bak = arg_memo.copy()\n        try:\n            check"),
 'S04_C04_swapped_restore_args': (A, """        else:
            set_shape_memo(
                single_memo_bak, variadic_memo_bak, pytree_memo_bak, arg_memo_bak
            )
            return check""", """        else:
            set_shape_memo(
                single_memo_bak, variadic_memo_bak, arg_memo_bak, pytree_memo_bak
            )
            return check"""),
 'S05_C05_pop_not_on_baseexception': (D, """                try:
                    # Put this in a separate frame to make debugging easier, without
                    # just always ending up on the `pop_shape_memo` line below.
                    return wrapped_fn_impl(args, kwargs, bound, memos)
                finally:
                    pop_shape_memo()""", """                try:
                    out = wrapped_fn_impl(args, kwargs, bound, memos)
                except Exception:
                    pop_shape_memo()
                    raise
                pop_shape_memo()
                return out"""),
 'S06_C05_context_exit_conditional': (D, """    def __exit__(self, exc_type, exc_value, exc_tb):
        pop_shape_memo()""", """    def __exit__(self, exc_type, exc_value, exc_tb):
        if exc_type is None:
            pop_shape_memo()"""),
 'S07_C05_shared_default_memos': (S, """        single_memo = {}
        variadic_memo = {}
        pytree_memo = {}
        arguments = {}
    return""", """        single_memo, variadic_memo, pytree_memo, arguments = _default_memos
    return"""),
 'S08_C06_plain_object_storage': (S, "_treepath_storage = threading.local()", "class _Plain:\n    pass\n\n\n_treepath_storage = _Plain()"),
 'S10_C07_property_fset_from_fget': (D, "            fset = jaxtyped(fn.fset, typechecker=typechecker)", "            fset = jaxtyped(fn.fget, typechecker=typechecker)"),
 'S11_C10_function_decorator_outermost': (H, "        node.decorator_list.append(decorator)", "        node.decorator_list.insert(0, decorator)"),
 'S12_C10_copy_location_swapped': (H, """        decorator = self._typechecker.get_ast()
        ast.copy_location(decorator, node)
        # Place at the end""", """        decorator = self._typechecker.get_ast()
        ast.copy_location(node, decorator)
        # Place at the end"""),
 'S13_C11_raw_prefix': (H, 'module_name.startswith(module + ".")', 'module_name.startswith(module)'),
 'S14_C12_flatten_flag_leak_on_baseexception': (P, """        finally:
            clear_treeflatten_memo()""", """        except Exception:
            clear_treeflatten_memo()
            raise
        clear_treeflatten_memo()"""),
 'S15_C13_cause_polarity_swapped': (D, """                        if config.jaxtyping_remove_typechecker_stack:
                            raise TypeCheckError(msg) from None
                        else:
                            raise TypeCheckError(msg) from e

                # Actually""", """                        if config.jaxtyping_remove_typechecker_stack:
                            raise TypeCheckError(msg) from e
                        else:
                            raise TypeCheckError(msg) from None

                # Actually"""),
 'S16_C13_annotationerror_swallowed_in_return': (D, """                        full_fn(*args, **kwargs)
                    except AnnotationError:
                        raise
                    except Exception as e:""", """                        full_fn(*args, **kwargs)
                    except Exception as e:"""),
 'S17_C14_fixed_treepath_allowed': (A, """            if treepath:
                raise ValueError(
                    "Cannot have a fixed axis have tree-path dependence, e.g. `?4` is "
                    "not allowed."
                )
""", ""),
 'S18_C14_typeerror_instead_of_valueerror': (A, """                raise ValueError(
                    "Cannot have a symbolic axis be anonymous, e.g. \"""", """                raise TypeError(
                    "Cannot have a symbolic axis be anonymous, e.g. \""""),
 'S19_C15_dims_order_swapped': (A, "        dims = dims + array_type.dims\n", "        dims = array_type.dims + dims\n"),
 'S20_C16_variadic_ignores_treepath': (A, """                if variadic_dim.treepath:
                    name = get_treepath_memo() + variadic_dim.name
                else:
                    name = variadic_dim.name""", """                name = variadic_dim.name"""),
 'S22_C18_tag_without_hash': (H, 'optimization=f"jaxtyping9{typechecker_hash}"', 'optimization="jaxtyping9"'),
 'S23_C19_disable_flag_ignored': (D, """                if (
                    config.jaxtyping_disable
                    or getattr(fn, "__no_type_check__", False)""", """                if (
                    getattr(fn, "__no_type_check__", False)"""),
 'S24_C19_case_sensitive_switch': (C, """        if value.lower() in ("0", "false"):
            return False
        elif value.lower() in ("1", "true"):""", """        if value in ("0", "false"):
            return False
        elif value in ("1", "true"):"""),
 'S26_C03_bfloat16_not_float': (A, "floats = float8 + [_bfloat16, _float16, _float32, _float64]", "floats = float8 + [_float16, _float32, _float64]"),
 'S27_C03_substring_match': (A, "                    in_dtypes = dtype == cls_dtype", "                    in_dtypes = dtype in cls_dtype"),
 'S28_C01_eval_on_live_memo': (A, "                eval_size = eval(elem, single_memo.copy())", "                eval_size = eval(elem, single_memo)"),
 'S29_C01_slice_disagreement': (A, "                    variadic_memo[name] = (broadcastable, obj.shape[i:j])", "                    variadic_memo[name] = (broadcastable, obj.shape[i:])"),
 'S30_C09_unbound_composite_returns_false': (P, """                    except KeyError as e:
                        raise AnnotationError(
                            f"Cannot process composite structure '{cls.structure}' "
                            f"as the structure name {identifier} has not been seen "
                            "before."
                        ) from e""", """                    except KeyError:
                        return False"""),
 'S32_C10_no_generic_visit_in_class': (H, """        node.decorator_list.insert(0, decorator)
        self._parents.append(node)
        self.generic_visit(node)
        self._parents.pop()
        return node""", """        node.decorator_list.insert(0, decorator)
        return node"""),
 'S33_C07_bind_after_push_in_try_converted': (D, """                bound = param_signature.bind(*args, **kwargs)
                bound.apply_defaults()

                memos = push_shape_memo(bound.arguments)
                try:""", """                memos = push_shape_memo({})
                bound = param_signature.bind(*args, **kwargs)
                bound.apply_defaults()
                memos[3].update(bound.arguments)
                try:"""),
}
